package main

import (
	"fmt"
	"go/token"
	"go/types"
	"sort"
	"strings"

	"golang.org/x/tools/go/ssa"
)

func init() { register("C07", checkC07) }

func checkC07(c *Ctx) {
	c07Hclsyntax(c)
	c07VariablesMethods(c)
	c07JSON(c)
	c07Hcldec(c)
	c07Dynblock(c)
	c07BlockSelection(c)
	c07ScopePushPop(c)
	c07VarsEntry(c)
	c07VisitRecurse(c)
	c07CollectLoops(c)
	c07WalkFlags(c)
	c.NotCovered("that a reported traversal has the right steps; equality of diagnostics under a pruned scope")
	c.NotCovered("hand-built ASTs whose ObjectConsKeyExpr literal-key condition differs between Value and walkChildNodes")
}

// fieldTrail collects the struct fields met when walking back from v to its origins.
func fieldTrail(v ssa.Value) map[*types.Var]bool {
	out := map[*types.Var]bool{}
	seen := map[ssa.Value]bool{}
	var walk func(v ssa.Value, d int)
	walk = func(v ssa.Value, d int) {
		if v == nil || seen[v] || d > 40 {
			return
		}
		seen[v] = true
		switch x := v.(type) {
		case *ssa.UnOp:
			if x.Op == token.MUL {
				if al, ok := x.X.(*ssa.Alloc); ok {
					for _, st := range storesInto(al) {
						if st.Addr == ssa.Value(al) {
							walk(st.Val, d+1)
						}
					}
					return
				}
			}
			walk(x.X, d+1)
		case *ssa.FieldAddr:
			if fv := fieldVarOf(x.X.Type(), x.Field); fv != nil {
				out[fv] = true
			}
			walk(x.X, d+1)
		case *ssa.Field:
			if fv := fieldVarOf(x.X.Type(), x.Field); fv != nil {
				out[fv] = true
			}
			walk(x.X, d+1)
		case *ssa.IndexAddr:
			walk(x.X, d+1)
		case *ssa.Index:
			walk(x.X, d+1)
		case *ssa.Lookup:
			walk(x.X, d+1)
		case *ssa.Slice:
			walk(x.X, d+1)
		case *ssa.Phi:
			for _, e := range x.Edges {
				walk(e, d+1)
			}
		case *ssa.Extract:
			walk(x.Tuple, d+1)
		case *ssa.Next:
			walk(x.Iter, d+1)
		case *ssa.Range:
			walk(x.X, d+1)
		case *ssa.MakeInterface:
			walk(x.X, d+1)
		case *ssa.ChangeInterface:
			walk(x.X, d+1)
		case *ssa.ChangeType:
			walk(x.X, d+1)
		case *ssa.TypeAssert:
			walk(x.X, d+1)
		case *ssa.Call:
			if bi, ok := x.Call.Value.(*ssa.Builtin); ok && bi.Name() == "append" {
				for _, a := range x.Call.Args {
					walk(a, d+1)
				}
			}
		case *ssa.FreeVar:
			// captured variable: the cell in the parent
			fn := x.Parent()
			for i, fv := range fn.FreeVars {
				if fv != x || fn.Parent() == nil {
					continue
				}
				for _, b := range fn.Parent().Blocks {
					for _, ins := range b.Instrs {
						if mc, ok := ins.(*ssa.MakeClosure); ok && mc.Fn == ssa.Value(fn) {
							walk(mc.Bindings[i], d+1)
						}
					}
				}
			}
		case *ssa.Alloc:
			for _, st := range storesInto(x) {
				walk(st.Val, d+1)
			}
		}
	}
	walk(v, 0)
	return out
}

func isExprType(t types.Type) bool {
	check := func(t types.Type) bool {
		return isNamed(t, hclsyntaxPath, "Expression") || isNamed(t, modPath, "Expression")
	}
	if check(t) {
		return true
	}
	if s, ok := t.Underlying().(*types.Slice); ok {
		return check(s.Elem())
	}
	return false
}

// exprFieldsOf: the fields of expression type on the trail of v.
func exprFieldsOf(v ssa.Value) []*types.Var {
	var out []*types.Var
	for fv := range fieldTrail(v) {
		if isExprType(fv.Type()) {
			out = append(out, fv)
		}
	}
	sort.Slice(out, func(i, j int) bool { return out[i].Name() < out[j].Name() })
	return out
}

type evalUse struct {
	field *types.Var
	child bool // evaluated in a child context (ctx.NewChild())
	pos   token.Pos
}

// evaluatedFields: fields of fn's node on which .Value is invoked (also inside closures), or
// which are handed to a custom decoder.
func evaluatedFields(fn *ssa.Function) []evalUse {
	var out []evalUse
	var scan func(f *ssa.Function)
	scan = func(f *ssa.Function) {
		for _, b := range f.Blocks {
			for _, ins := range b.Instrs {
				call, ok := ins.(*ssa.Call)
				if !ok {
					continue
				}
				var recv ssa.Value
				var ctxArg ssa.Value
				if call.Call.IsInvoke() && call.Call.Method.Name() == "Value" && len(call.Call.Args) == 1 && isNamed(call.Call.Args[0].Type(), modPath, "EvalContext") {
					recv, ctxArg = call.Call.Value, call.Call.Args[0]
				} else if !call.Call.IsInvoke() {
					// dynamic function value taking (Expression, *EvalContext): custom decoder
					if _, isFn := call.Call.Value.Type().Underlying().(*types.Signature); isFn && call.Call.StaticCallee() == nil && len(call.Call.Args) == 2 &&
						isExprType(call.Call.Args[0].Type()) && isNamed(call.Call.Args[1].Type(), modPath, "EvalContext") {
						recv, ctxArg = call.Call.Args[0], call.Call.Args[1]
					}
					if cal := call.Call.StaticCallee(); cal != nil && cal.Name() == "Value" && cal.Signature.Recv() != nil && len(call.Call.Args) == 2 && isNamed(call.Call.Args[1].Type(), modPath, "EvalContext") {
						recv, ctxArg = call.Call.Args[0], call.Call.Args[1]
					}
				}
				if recv == nil {
					continue
				}
				child := derivesFromNewChild(ctxArg, map[ssa.Value]bool{})
				for _, fv := range exprFieldsOf(recv) {
					out = append(out, evalUse{fv, child, call.Pos()})
				}
			}
		}
		for _, af := range f.AnonFuncs {
			scan(af)
		}
	}
	scan(fn)
	return out
}

func derivesFromNewChild(v ssa.Value, seen map[ssa.Value]bool) bool {
	if v == nil || seen[v] {
		return false
	}
	seen[v] = true
	switch x := v.(type) {
	case *ssa.Call:
		if cal := x.Call.StaticCallee(); cal != nil && cal.Name() == "NewChild" {
			return true
		}
		// a helper or local closure of the module every return of which yields a child context
		var g *ssa.Function
		if cal := x.Call.StaticCallee(); cal != nil && inModule(cal) {
			g = cal
		} else if mc, ok := x.Call.Value.(*ssa.MakeClosure); ok {
			g = mc.Fn.(*ssa.Function)
		}
		if g != nil && len(g.Blocks) > 0 && g.Signature.Results().Len() == 1 {
			all, any := true, false
			for _, gb := range g.Blocks {
				if r, ok := gb.Instrs[len(gb.Instrs)-1].(*ssa.Return); ok && len(r.Results) == 1 {
					any = true
					if !derivesFromNewChild(r.Results[0], seen) {
						all = false
					}
				}
			}
			return all && any
		}
	case *ssa.Phi:
		all := len(x.Edges) > 0
		for _, e := range x.Edges {
			if !derivesFromNewChild(e, seen) {
				all = false
			}
		}
		return all
	case *ssa.UnOp:
		if al, ok := x.X.(*ssa.Alloc); ok {
			all := false
			for _, st := range storesInto(al) {
				if st.Addr == ssa.Value(al) {
					if derivesFromNewChild(st.Val, seen) {
						all = true
					} else {
						return false
					}
				}
			}
			return all
		}
		if fvv, ok := x.X.(*ssa.FreeVar); ok {
			_ = fvv
			return false
		}
	}
	return false
}

type walkUse struct {
	field  *types.Var
	scoped bool
	names  map[*types.Var]bool // string fields put into LocalNames
	pos    token.Pos
}

// walkedFields: fields passed to the walk callback in walkChildNodes, plain or inside ChildScope.
func walkedFields(fn *ssa.Function) []walkUse {
	var out []walkUse
	if len(fn.Params) < 2 {
		return nil
	}
	w := fn.Params[len(fn.Params)-1]
	// a local closure that makes the visit for the expression it is handed:
	// visit := func(expr Expression) { w(ChildScope{LocalNames: names, Expr: expr}) }
	for _, af := range fn.AnonFuncs {
		if len(af.Params) != 1 || !isExprType(af.Params[0].Type()) {
			continue
		}
		scoped, direct := false, false
		names := map[*types.Var]bool{}
		for _, b := range af.Blocks {
			for _, ins := range b.Instrs {
				call, ok := ins.(*ssa.Call)
				if !ok || len(call.Call.Args) != 1 {
					continue
				}
				isW := false
				for _, o := range originsOf(call.Call.Value, nil) {
					if o == ssa.Value(w) {
						isW = true
					}
				}
				if !isW {
					continue
				}
				inner := call.Call.Args[0]
				if mi, ok := inner.(*ssa.MakeInterface); ok {
					inner = mi.X
				}
				if inner == ssa.Value(af.Params[0]) {
					direct = true
				}
				if u, ok := inner.(*ssa.UnOp); ok && u.Op == token.MUL {
					if al, ok := u.X.(*ssa.Alloc); ok && isNamed(al.Type(), hclsyntaxPath, "ChildScope") {
						for _, st := range storesInto(al) {
							fa, ok := st.Addr.(*ssa.FieldAddr)
							if !ok {
								continue
							}
							fv := fieldVarOf(fa.X.Type(), fa.Field)
							if fv == nil {
								continue
							}
							switch fv.Name() {
							case "Expr":
								if st.Val == ssa.Value(af.Params[0]) {
									scoped = true
								}
							case "LocalNames":
								for _, n := range mapKeyFields(st.Val, fn) {
									names[n] = true
								}
							}
						}
					}
				}
			}
		}
		if !scoped && !direct {
			continue
		}
		for _, b := range fn.Blocks {
			for _, ins := range b.Instrs {
				call, ok := ins.(*ssa.Call)
				if !ok || len(call.Call.Args) != 1 {
					continue
				}
				callsAf := false
				for _, o := range originsOf(call.Call.Value, nil) {
					if mc, ok := o.(*ssa.MakeClosure); ok && mc.Fn == ssa.Value(af) {
						callsAf = true
					}
					if o == ssa.Value(af) {
						callsAf = true
					}
				}
				if !callsAf {
					continue
				}
				for _, f := range exprFieldsOf(call.Call.Args[0]) {
					if scoped {
						out = append(out, walkUse{f, true, names, call.Pos()})
					} else {
						out = append(out, walkUse{f, false, nil, call.Pos()})
					}
				}
			}
		}
	}
	for _, b := range fn.Blocks {
		for _, ins := range b.Instrs {
			call, ok := ins.(*ssa.Call)
			isWCall := ok && call.Call.Value == ssa.Value(w)
			if ok && !isWCall {
				// w spilled into a cell because a closure captures it
				if os := originsOf(call.Call.Value, nil); len(os) == 1 && os[0] == ssa.Value(w) {
					isWCall = true
				}
			}
			if ok && !isWCall {
				// the walk callback handed on to a helper of the package together with child fields
				// (walkExprs(w, e.Args)): the helper is trusted to visit what it is given iff it calls
				// its callback parameter
				if k := staticCallee(&call.Call); k != nil && fnPkg(k) == fnPkg(fn) && len(k.Blocks) > 0 {
					passesW, callsIt := false, false
					for i, a := range call.Call.Args {
						if a == ssa.Value(w) && i < len(k.Params) {
							passesW = true
							for _, kb := range k.Blocks {
								for _, kin := range kb.Instrs {
									if kc, ok := kin.(*ssa.Call); ok && kc.Call.Value == ssa.Value(k.Params[i]) {
										callsIt = true
									}
								}
							}
						}
					}
					if passesW && callsIt {
						for _, a := range call.Call.Args {
							if a == ssa.Value(w) {
								continue
							}
							for _, f := range exprFieldsOf(a) {
								out = append(out, walkUse{f, false, nil, call.Pos()})
							}
						}
					}
				}
			}
			if !ok || !isWCall || len(call.Call.Args) != 1 {
				continue
			}
			arg := call.Call.Args[0]
			scoped := false
			names := map[*types.Var]bool{}
			// ChildScope literal?
			inner := arg
			if mi, ok := inner.(*ssa.MakeInterface); ok {
				inner = mi.X
			}
			if u, ok := inner.(*ssa.UnOp); ok && u.Op == token.MUL {
				if al, ok := u.X.(*ssa.Alloc); ok && isNamed(al.Type(), hclsyntaxPath, "ChildScope") {
					scoped = true
					for _, st := range storesInto(al) {
						fa, ok := st.Addr.(*ssa.FieldAddr)
						if !ok {
							continue
						}
						fv := fieldVarOf(fa.X.Type(), fa.Field)
						if fv == nil {
							continue
						}
						switch fv.Name() {
						case "Expr":
							for _, f := range exprFieldsOf(st.Val) {
								out = append(out, walkUse{f, true, names, call.Pos()})
							}
						case "LocalNames":
							// keys of the map: MapUpdates with keys loaded from string fields
							for _, n := range mapKeyFields(st.Val, fn) {
								names[n] = true
							}
						}
					}
				}
			}
			if !scoped {
				for _, f := range exprFieldsOf(arg) {
					out = append(out, walkUse{f, false, nil, call.Pos()})
				}
			}
		}
	}
	return out
}

// mapKeyFields: string fields of the receiver used as keys of updates into map m within fn.
func mapKeyFields(m ssa.Value, fn *ssa.Function) []*types.Var {
	var out []*types.Var
	var scan func(f *ssa.Function)
	scan = func(f *ssa.Function) {
		for _, b := range f.Blocks {
			for _, ins := range b.Instrs {
				mu, ok := ins.(*ssa.MapUpdate)
				if !ok {
					continue
				}
				if mu.Map != m && !sameCell(mu.Map, m) && !sameMadeMap(mu.Map, m) {
					// maps stored in a field of a fresh object: compare by load source
					continue
				}
				for fv := range keyStringFields(mu.Key) {
					out = append(out, fv)
				}
			}
		}
	}
	scan(fn)
	return out
}

// sameMadeMap: both values are (loads of cells that only hold) the same map made by one make.
func sameMadeMap(a, b ssa.Value) bool {
	oa, ob := originsOf(a, nil), originsOf(b, nil)
	if len(oa) != 1 || len(ob) != 1 || oa[0] != ob[0] {
		return false
	}
	_, isMake := oa[0].(*ssa.MakeMap)
	return isMake
}

// keyStringFields: the string fields a map key is read from — directly, or as an element of an
// array literal whose elements are read from such fields (for _, n := range [...]string{e.A, e.B}).
func keyStringFields(key ssa.Value) map[*types.Var]bool {
	out := map[*types.Var]bool{}
	add := func(v ssa.Value) {
		for fv := range fieldTrail(v) {
			if b, ok := fv.Type().Underlying().(*types.Basic); ok && b.Kind() == types.String {
				out[fv] = true
			}
		}
	}
	add(key)
	fromArray := func(arr *ssa.Alloc) {
		for _, r := range *arr.Referrers() {
			if ia2, ok := r.(*ssa.IndexAddr); ok {
				for _, r2 := range *ia2.Referrers() {
					if st, ok := r2.(*ssa.Store); ok && st.Addr == ssa.Value(ia2) {
						add(st.Val)
					}
				}
			}
		}
	}
	if ix, ok := key.(*ssa.Index); ok {
		if u, ok := ix.X.(*ssa.UnOp); ok && u.Op == token.MUL {
			if arr, ok := u.X.(*ssa.Alloc); ok {
				fromArray(arr)
			}
		}
	}
	if u, ok := key.(*ssa.UnOp); ok && u.Op == token.MUL {
		if ia, ok := u.X.(*ssa.IndexAddr); ok {
			if arr, ok := ia.X.(*ssa.Alloc); ok {
				for _, r := range *arr.Referrers() {
					if ia2, ok := r.(*ssa.IndexAddr); ok {
						for _, r2 := range *ia2.Referrers() {
							if st, ok := r2.(*ssa.Store); ok && st.Addr == ssa.Value(ia2) {
								add(st.Val)
							}
						}
					}
				}
			}
		}
	}
	return out
}

// boundNameFields: string fields of the receiver used as keys when filling the Variables map
// of a child context in fn.
func boundNameFields(fn *ssa.Function, more ...*ssa.Function) map[*types.Var]bool {
	out := map[*types.Var]bool{}
	scanned := map[*ssa.Function]bool{}
	var scan func(f *ssa.Function)
	scan = func(f *ssa.Function) {
		if scanned[f] {
			return
		}
		scanned[f] = true
		for _, b := range f.Blocks {
			for _, ins := range b.Instrs {
				mu, ok := ins.(*ssa.MapUpdate)
				if !ok {
					continue
				}
				// map loaded from field Variables of an EvalContext
				if !isVariablesMap(mu.Map) {
					continue
				}
				for fv := range fieldTrail(mu.Key) {
					if b, ok := fv.Type().Underlying().(*types.Basic); ok && b.Kind() == types.String {
						out[fv] = true
					}
				}
			}
		}
		for _, af := range f.AnonFuncs {
			scan(af)
		}
	}
	scan(fn)
	for _, f := range more {
		scan(f)
	}
	return out
}

// R1 + R2: hclsyntax nodes.
func c07Hclsyntax(c *Ctx) {
	c.Rule("R1 walk.complete: for every hclsyntax node type with Value and walkChildNodes, every expression-typed field on which Value (incl. its closures) invokes .Value(ctx), or which it hands to a custom expression decoder, is passed to the walk callback in walkChildNodes (directly or inside a ChildScope)")
	c.Rule("R2 walk.scope: a field is wrapped in ChildScope by walkChildNodes exactly when Value evaluates it in a context obtained from ctx.NewChild(), and the names put into ChildScope.LocalNames are the string fields Value uses as keys of the child context's Variables")
	pkg := c.P.Pkg("hclsyntax")
	if pkg == nil {
		c.CheckerFail("walk", "hclsyntax not loaded")
		return
	}
	sc := pkg.Types.Scope()
	nTypes := 0
	for _, n := range sc.Names() {
		tn, ok := sc.Lookup(n).(*types.TypeName)
		if !ok {
			continue
		}
		val := c.P.LookupFunc("hclsyntax", n+".Value")
		wcn := c.P.LookupFunc("hclsyntax", n+".walkChildNodes")
		if val == nil || wcn == nil || val.Signature.Recv() == nil {
			continue
		}
		if namedOf(val.Signature.Recv().Type()) != tn.Type() {
			continue // promoted from an embedded type
		}
		nTypes++
		c.Fn(FuncName(val))
		c.Fn(FuncName(wcn))
		evals := evaluatedFields(val)
		walks := walkedFields(wcn)
		walked := map[*types.Var]bool{}
		scoped := map[*types.Var]bool{}
		localNames := map[*types.Var]bool{}
		for _, w := range walks {
			walked[w.field] = true
			if w.scoped {
				scoped[w.field] = true
				for k := range w.names {
					localNames[k] = true
				}
			}
		}
		evalSet := map[*types.Var]evalUse{}
		childEval := map[*types.Var]bool{}
		outerEval := map[*types.Var]bool{}
		for _, e := range evals {
			if _, ok := evalSet[e.field]; !ok {
				evalSet[e.field] = e
			}
			if e.child {
				childEval[e.field] = true
			} else {
				outerEval[e.field] = true
			}
		}
		var fields []*types.Var
		for f := range evalSet {
			fields = append(fields, f)
		}
		sort.Slice(fields, func(i, j int) bool { return fields[i].Name() < fields[j].Name() })
		if len(fields) == 0 {
			c.OK("walk.complete", "hclsyntax."+n+":leaf", val.Pos(), "evaluates no sub-expression")
		}
		for _, f := range fields {
			key := fmt.Sprintf("hclsyntax.%s:field[%s]", n, f.Name())
			c.Sites++
			c.Check(walked[f], "walk.complete", key, evalSet[f].pos, "walked",
				"Value evaluates "+f.Name()+" but walkChildNodes does not visit it: variables referenced only there are not reported")
			if !walked[f] {
				continue
			}
			switch {
			case childEval[f] && !outerEval[f] && !scoped[f]:
				c.Fail("walk.scope", key, evalSet[f].pos, f.Name()+" is evaluated in a child scope that binds local names, but is walked outside any ChildScope: the bound names are reported as required variables")
			case outerEval[f] && !childEval[f] && scoped[f]:
				c.Fail("walk.scope", key, evalSet[f].pos, f.Name()+" is evaluated in the caller's scope but is walked inside a ChildScope: references to outer variables that share a local name are not reported")
			default:
				c.OK("walk.scope", key, evalSet[f].pos, "")
			}
		}
		if len(scoped) > 0 {
			bound := boundNameFields(val, c.P.expandedFuncs(val)...)
			var bn, ln []string
			for k := range bound {
				bn = append(bn, k.Name())
			}
			for k := range localNames {
				ln = append(ln, k.Name())
			}
			sort.Strings(bn)
			sort.Strings(ln)
			c.Check(strings.Join(bn, ",") == strings.Join(ln, ","), "walk.scope", "hclsyntax."+n+":names", wcn.Pos(),
				"bound names = local names ("+strings.Join(bn, ",")+")",
				"names bound by Value in the child scope ("+strings.Join(bn, ",")+") differ from the LocalNames of the ChildScope ("+strings.Join(ln, ",")+")")
		}
	}
	c.Floor("walk node types", nTypes, 17, "hclsyntax expression node types with Value and walkChildNodes")
	// walker push/pop symmetry
	enter := c.P.LookupFunc("hclsyntax", "variablesWalker.Enter")
	exit := c.P.LookupFunc("hclsyntax", "variablesWalker.Exit")
	if enter == nil || exit == nil {
		c.CheckerFail("walk.scope", "anchor variablesWalker.Enter/Exit does not resolve")
		return
	}
	assertsChildScope := func(fn *ssa.Function) bool {
		for _, b := range fn.Blocks {
			for _, ins := range b.Instrs {
				if ta, ok := ins.(*ssa.TypeAssert); ok && isNamed(ta.AssertedType, hclsyntaxPath, "ChildScope") {
					return true
				}
			}
		}
		return false
	}
	handlesTraversal := false
	for _, b := range enter.Blocks {
		for _, ins := range b.Instrs {
			if ta, ok := ins.(*ssa.TypeAssert); ok && isNamed(ta.AssertedType, hclsyntaxPath, "ScopeTraversalExpr") {
				handlesTraversal = true
			}
		}
	}
	c.Check(assertsChildScope(enter) && assertsChildScope(exit), "walk.scope", "hclsyntax.variablesWalker:pushpop", enter.Pos(), "Enter pushes and Exit pops on ChildScope",
		"variablesWalker does not handle ChildScope in both Enter and Exit: local scopes are not pushed/popped symmetrically")
	c.Check(handlesTraversal, "walk.complete", "hclsyntax.variablesWalker:leaf[ScopeTraversalExpr]", enter.Pos(), "ScopeTraversalExpr reported",
		"variablesWalker.Enter has no case for *ScopeTraversalExpr: no variable is ever reported")
}

// R3: every expression type reports its variables through the shared walker.
func c07VariablesMethods(c *Ctx) {
	c.Rule("R3 vars.method: every type of hclsyntax that implements Expression has a Variables method that returns hclsyntax.Variables(receiver)")
	pkg := c.P.Pkg("hclsyntax")
	exprI := pkg.Types.Scope().Lookup("Expression").Type().Underlying().(*types.Interface)
	varsFn := c.P.LookupFunc("hclsyntax", "Variables")
	if varsFn == nil {
		c.CheckerFail("vars.method", "anchor hclsyntax.Variables does not resolve")
		return
	}
	n := 0
	for _, name := range pkg.Types.Scope().Names() {
		tn, ok := pkg.Types.Scope().Lookup(name).(*types.TypeName)
		if !ok || types.IsInterface(tn.Type()) {
			continue
		}
		if !types.Implements(types.NewPointer(tn.Type()), exprI) && !types.Implements(tn.Type(), exprI) {
			continue
		}
		m := c.P.LookupFunc("hclsyntax", name+".Variables")
		if m == nil {
			continue
		}
		if namedOf(m.Signature.Recv().Type()) != tn.Type() {
			continue
		}
		if m.Synthetic != "" {
			// promoted from an embedded Expression (ParenthesesExpr): the inner node's own method runs
			c.OK("vars.method", "hclsyntax."+name+".Variables", m.Pos(), "promoted from the embedded expression")
			n++
			continue
		}
		n++
		c.Fn(FuncName(m))
		ok2 := false
		for _, b := range m.Blocks {
			for _, ins := range b.Instrs {
				if call, isCall := ins.(*ssa.Call); isCall && call.Call.StaticCallee() == varsFn {
					arg := call.Call.Args[0]
					if mi, isMI := arg.(*ssa.MakeInterface); isMI {
						arg = mi.X
					}
					if arg == ssa.Value(m.Params[0]) || isSpillOf(arg, m.Params[0]) {
						ok2 = true
					}
				}
			}
		}
		c.Check(ok2, "vars.method", "hclsyntax."+name+".Variables", m.Pos(), "delegates to Variables(e)",
			"Variables() does not return hclsyntax.Variables(receiver): the node's references are computed some other way")
	}
	c.Floor("vars.method types", n, 17, "hclsyntax expression types")
}

// ---- JSON --------------------------------------------------------------------------------

type jsonSink struct {
	node  string // node type name
	path  string // field path within the node
	sink  string // template | recurse
	pos   token.Pos
	block *ssa.BasicBlock
}

// jsonSinks: for a method of json.expression with a type switch on e.src, which fields of
// which node types reach the template parser or a recursive call of the same method.
func jsonSinks(fn *ssa.Function, templateFns map[*ssa.Function]bool) []jsonSink {
	var out []jsonSink
	type item struct {
		v    ssa.Value
		node string
		path string
	}
	seen := map[string]bool{}
	var work []item
	for _, b := range fn.Blocks {
		for _, ins := range b.Instrs {
			if ta, ok := ins.(*ssa.TypeAssert); ok {
				if n := namedOf(ta.AssertedType); n != nil && n.Obj().Pkg() != nil && n.Obj().Pkg().Path() == modPath+"/json" {
					work = append(work, item{ta, n.Obj().Name(), ""})
				}
			}
		}
	}
	for len(work) > 0 {
		it := work[len(work)-1]
		work = work[:len(work)-1]
		k := fmt.Sprintf("%p|%s|%s", it.v, it.node, it.path)
		if seen[k] {
			continue
		}
		seen[k] = true
		refs := it.v.Referrers()
		if refs == nil {
			continue
		}
		for _, r := range *refs {
			switch x := r.(type) {
			case *ssa.Extract:
				if x.Index == 0 {
					work = append(work, item{x, it.node, it.path})
				} else if _, isNext := x.Tuple.(*ssa.Next); isNext && x.Index == 2 {
					work = append(work, item{x, it.node, it.path})
				}
			case *ssa.FieldAddr:
				name := "?"
				if fv := fieldVarOf(x.X.Type(), x.Field); fv != nil {
					name = fv.Name()
				}
				// stores INTO a field of a fresh object that we track are handled below
				if x.X == it.v {
					work = append(work, item{x, it.node, strings.TrimPrefix(it.path+"."+name, ".")})
				}
			case *ssa.Field:
				name := "?"
				if fv := fieldVarOf(x.X.Type(), x.Field); fv != nil {
					name = fv.Name()
				}
				work = append(work, item{x, it.node, strings.TrimPrefix(it.path+"."+name, ".")})
			case *ssa.UnOp:
				work = append(work, item{x, it.node, it.path})
			case *ssa.IndexAddr:
				if x.X == it.v {
					work = append(work, item{x, it.node, it.path})
				}
			case *ssa.Range:
				work = append(work, item{x, it.node, it.path})
			case *ssa.Next:
				work = append(work, item{x, it.node, it.path})
			case *ssa.Phi, *ssa.MakeInterface, *ssa.ChangeInterface, *ssa.Convert, *ssa.ChangeType, *ssa.Slice:
				work = append(work, item{r.(ssa.Value), it.node, it.path})
			case *ssa.Store:
				if x.Val == it.v {
					// stored into a field of a local object: the object now carries it
					root := memRoot(x.Addr)
					if al, ok := root.(*ssa.Alloc); ok {
						work = append(work, item{al, it.node, it.path})
					}
				}
			case *ssa.Call:
				cal := x.Call.StaticCallee()
				if cal != nil && templateFns[cal] {
					out = append(out, jsonSink{it.node, it.path, "template", x.Pos(), x.Block()})
				}
				if cal == fn {
					out = append(out, jsonSink{it.node, it.path, "recurse", x.Pos(), x.Block()})
				}
			}
		}
	}
	return out
}

func c07JSON(c *Ctx) {
	c.Rule("R4 json.agree: for every JSON node type, each (field → template parser / recursive evaluation) pair of json.expression.Value also appears in json.expression.Variables (string content as a template, array elements, object property names as templates and property values); and in the string arm of Variables every return is preceded by the template parse of the string (no shortcut that skips analysing a string Value would evaluate as a template)")
	val := c.P.LookupFunc("json", "expression.Value")
	vars := c.P.LookupFunc("json", "expression.Variables")
	pt := c.P.LookupFunc("hclsyntax", "ParseTemplate")
	if val == nil || vars == nil || pt == nil {
		c.CheckerFail("json.agree", "anchor json.expression.Value/Variables or hclsyntax.ParseTemplate does not resolve")
		return
	}
	c.Fn(FuncName(val))
	c.Fn(FuncName(vars))
	tf := map[*ssa.Function]bool{pt: true}
	vs := jsonSinks(val, tf)
	ws := jsonSinks(vars, tf)
	have := map[string]bool{}
	for _, s := range ws {
		have[s.node+"|"+s.path+"|"+s.sink] = true
	}
	seen := map[string]bool{}
	n := 0
	for _, s := range vs {
		k := s.node + "|" + s.path + "|" + s.sink
		if seen[k] {
			continue
		}
		seen[k] = true
		n++
		c.Check(have[k], "json.agree", fmt.Sprintf("json.expression:%s.%s→%s", s.node, s.path, s.sink), s.pos, "analysed by Variables as well",
			fmt.Sprintf("Value sends %s.%s to the %s but Variables does not: variables referenced there are not reported", s.node, s.path, map[string]string{"template": "template parser", "recurse": "recursive evaluation"}[s.sink]))
	}
	c.Floor("json.agree pairs", n, 4, "stringVal.Value→template, arrayVal.Values→recurse, objectVal.Attrs.Name→recurse, objectVal.Attrs.Value→recurse")
	// must-pass-through in the string arm of Variables
	for _, b := range vars.Blocks {
		for _, ins := range b.Instrs {
			ta, ok := ins.(*ssa.TypeAssert)
			if !ok || !isNamed(ta.AssertedType, modPath+"/json", "stringVal") || !ta.CommaOk {
				continue
			}
			// arm entry: true successor of the `ok` test
			var arm *ssa.BasicBlock
			for _, r := range *ta.Referrers() {
				if ex, ok := r.(*ssa.Extract); ok && ex.Index == 1 {
					for _, r2 := range *ex.Referrers() {
						if iff, ok := r2.(*ssa.If); ok {
							arm = iff.Block().Succs[0]
						}
					}
				}
			}
			if arm == nil {
				c.Undecided("json.agree", "json.expression.Variables:stringVal-arm", ta.Pos(), "cannot locate the string arm")
				continue
			}
			// every path from arm to a return passes a ParseTemplate call
			seen := map[*ssa.BasicBlock]bool{}
			var walk func(b *ssa.BasicBlock) bool
			bad := token.NoPos
			walk = func(b *ssa.BasicBlock) bool {
				if seen[b] {
					return true
				}
				seen[b] = true
				for _, i2 := range b.Instrs {
					if call, ok := i2.(*ssa.Call); ok && (call.Call.StaticCallee() == pt || alwaysCalls(call.Call.StaticCallee(), pt, 0)) {
						return true
					}
					if r, ok := i2.(*ssa.Return); ok {
						bad = r.Pos()
						return false
					}
				}
				for _, su := range b.Succs {
					if !walk(su) {
						return false
					}
				}
				return true
			}
			ok2 := walk(arm)
			c.Check(ok2, "json.agree", "json.expression.Variables:stringVal-arm.parse", ta.Pos(), "every return of the string arm follows the template parse",
				"the string arm of Variables can return (at "+c.P.Position(bad)+") without parsing the string as a template, although Value evaluates every string as one: references in such strings are not reported")
		}
	}
}

// ---- hcldec ---------------------------------------------------------------------------------

func c07Hcldec(c *Ctx) {
	c.Rule("R5 spec.vars: every hcldec Spec whose decode evaluates an expression taken from the body content (attr.Expr.Value, a custom expression decoder, attributes of JustAttributes) implements variablesNeeded; every Spec whose decode calls decode(childBlock.Body, …, s.Nested, …) has a variablesNeeded that calls Variables(childBlock.Body, s.Nested); every sub-spec on which decode calls .decode(content, …) is handed to the callback in visitSameBodyChildren")
	pkg := c.P.Pkg("hcldec")
	specI := pkg.Types.Scope().Lookup("Spec").Type().Underlying().(*types.Interface)
	decodeFn := c.P.LookupFunc("hcldec", "decode")
	variablesFn := c.P.LookupFunc("hcldec", "Variables")
	if decodeFn == nil || variablesFn == nil {
		c.CheckerFail("spec.vars", "anchor hcldec.decode / hcldec.Variables does not resolve")
		return
	}
	n := 0
	for _, name := range pkg.Types.Scope().Names() {
		tn, ok := pkg.Types.Scope().Lookup(name).(*types.TypeName)
		if !ok || types.IsInterface(tn.Type()) {
			continue
		}
		if !types.Implements(types.NewPointer(tn.Type()), specI) && !types.Implements(tn.Type(), specI) {
			continue
		}
		dec := c.P.LookupFunc("hcldec", name+".decode")
		if dec == nil {
			continue
		}
		n++
		c.Fn(FuncName(dec))
		vn := c.P.LookupFunc("hcldec", name+".variablesNeeded")
		vis := c.P.LookupFunc("hcldec", name+".visitSameBodyChildren")
		evalsExpr, decodesChild := false, false
		subSpecs := map[*types.Var]bool{}
		var pos token.Pos
		for _, b := range dec.Blocks {
			for _, ins := range b.Instrs {
				call, ok := ins.(*ssa.Call)
				if !ok {
					continue
				}
				fromBody := func(v ssa.Value) bool {
					// the expression of an hcl.Attribute (content.Attributes[...].Expr, JustAttributes()[...].Expr)
					for fv := range fieldTrail(v) {
						if fv.Name() == "Expr" && fv.Pkg() != nil && fv.Pkg().Path() == modPath {
							return true
						}
					}
					return false
				}
				if call.Call.IsInvoke() && call.Call.Method.Name() == "Value" && len(call.Call.Args) == 1 && isNamed(call.Call.Args[0].Type(), modPath, "EvalContext") && fromBody(call.Call.Value) {
					evalsExpr = true
					pos = call.Pos()
				}
				if !call.Call.IsInvoke() && call.Call.StaticCallee() == nil && len(call.Call.Args) == 2 && isExprType(call.Call.Args[0].Type()) && fromBody(call.Call.Args[0]) {
					evalsExpr = true
					pos = call.Pos()
				}
				if call.Call.StaticCallee() == decodeFn {
					decodesChild = true
					pos = call.Pos()
				}
				if call.Call.IsInvoke() && call.Call.Method.Name() == "decode" {
					for fv := range fieldTrail(call.Call.Value) {
						subSpecs[fv] = true
					}
				}
			}
		}
		key := "hcldec." + name
		if evalsExpr {
			ok := vn != nil
			if ok {
				// calls Variables() on an expression
				ok = false
				for _, b := range vn.Blocks {
					for _, ins := range b.Instrs {
						if call, isCall := ins.(*ssa.Call); isCall && call.Call.IsInvoke() && call.Call.Method.Name() == "Variables" {
							ok = true
						}
					}
				}
			}
			c.Check(ok, "spec.vars", key+":expr", pos, "variablesNeeded reports the expression's variables",
				"decode evaluates an expression from the body but the spec has no variablesNeeded that calls Expr.Variables(): hcldec.Variables misses these references")
		}
		if decodesChild {
			ok := false
			if vn != nil {
				// directly, or through a helper of the package
				for _, f := range moduleCallees(vn, 2, map[*ssa.Function]bool{}) {
					if f != vn && (fnPkg(f) == nil || fnPkg(f).Path() != modPath+"/hcldec" || f == variablesFn) {
						continue
					}
					for _, b := range f.Blocks {
						for _, ins := range b.Instrs {
							if call, isCall := ins.(*ssa.Call); isCall && call.Call.StaticCallee() == variablesFn {
								ok = true
							}
						}
					}
				}
			}
			c.Check(ok, "spec.vars", key+":child", pos, "variablesNeeded recurses into child block bodies",
				"decode decodes child block bodies with s.Nested but variablesNeeded does not call Variables(childBlock.Body, s.Nested): references inside nested blocks are missed")
		}
		if len(subSpecs) > 0 {
			visited := map[*types.Var]bool{}
			if vis != nil && len(vis.Params) >= 2 {
				cb := vis.Params[len(vis.Params)-1]
				for _, b := range vis.Blocks {
					for _, ins := range b.Instrs {
						if call, isCall := ins.(*ssa.Call); isCall && call.Call.Value == ssa.Value(cb) {
							for _, a := range call.Call.Args {
								for fv := range fieldTrail(a) {
									visited[fv] = true
								}
							}
						}
					}
				}
				// map/slice receivers: ranging over the receiver itself
				if len(visited) == 0 {
					for _, b := range vis.Blocks {
						for _, ins := range b.Instrs {
							if call, isCall := ins.(*ssa.Call); isCall && call.Call.Value == ssa.Value(cb) {
								visited[nil] = true
							}
						}
					}
				}
			}
			var fs []*types.Var
			for f := range subSpecs {
				fs = append(fs, f)
			}
			sort.Slice(fs, func(i, j int) bool { return fs[i].Name() < fs[j].Name() })
			for _, f := range fs {
				c.Check(visited[f] || visited[nil], "spec.vars", key+":sub["+f.Name()+"]", dec.Pos(), "sub-spec visited",
					"decode decodes the sub-spec "+f.Name()+" against the same body but visitSameBodyChildren does not visit it: its variables and schema are missed")
			}
		} else if vis != nil {
			// receiver-as-collection specs (ObjectSpec, TupleSpec): decode calls .decode on elements
			callsElemDecode := false
			for _, b := range dec.Blocks {
				for _, ins := range b.Instrs {
					if call, isCall := ins.(*ssa.Call); isCall && call.Call.IsInvoke() && call.Call.Method.Name() == "decode" {
						callsElemDecode = true
					}
				}
			}
			if callsElemDecode {
				calls := false
				if len(vis.Params) >= 2 {
					cb := vis.Params[len(vis.Params)-1]
					for _, b := range vis.Blocks {
						for _, ins := range b.Instrs {
							if call, isCall := ins.(*ssa.Call); isCall && call.Call.Value == ssa.Value(cb) {
								calls = true
							}
						}
					}
				}
				c.Check(calls, "spec.vars", key+":elements", dec.Pos(), "element specs visited", "decode decodes its element specs but visitSameBodyChildren does not call back: their variables are missed")
			}
		}
	}
	c.Floor("spec.vars spec types", n, 15, "hcldec spec kinds")
}

// ---- dynblock ---------------------------------------------------------------------------------

func c07Dynblock(c *Ctx) {
	c.Rule("R6 dyn.filter: in dynblock's variable walker, references of a dynamic block's for_each are filtered only against inherited iterators (for_each is evaluated in the enclosing scope, where the block's own iterator name is an ordinary variable), references of labels and of content attributes against the own iterator and the inherited ones; exprWrap.Variables filters exactly the names iteration.EvalContext binds (IteratorName and the keys of Inherited)")
	visit := c.P.LookupFunc("ext/dynblock", "WalkVariablesNode.Visit")
	if visit == nil {
		c.CheckerFail("dyn.filter", "anchor WalkVariablesNode.Visit does not resolve")
		return
	}
	c.Fn(FuncName(visit))
	// For each append of a traversal to vars: which attribute name (constant map key) it came
	// from and which filter tests dominate it.
	type rec struct {
		attr      string
		ours      bool
		inherited bool
		oursMay   bool
		pos       token.Pos
	}
	var recs []rec
	for _, b := range visit.Blocks {
		for _, ins := range b.Instrs {
			call, ok := ins.(*ssa.Call)
			if !ok {
				continue
			}
			bi, ok := call.Call.Value.(*ssa.Builtin)
			if !ok || bi.Name() != "append" || !isNamed(sliceElem(call.Type()), modPath, "Traversal") {
				continue
			}
			// origin attribute: constant key of a lookup on the trail of the appended traversal
			attr := attrKeyOf(call.Call.Args[1])
			r := rec{attr: attr, pos: call.Pos()}
			// filter tests about the appended traversal: tested on every path to the append
			// (must) and on some path (may); a nil iteration makes every filter vacuous
			must, may := filterFacts(visit, b, appendedElem(call))
			r.ours = must&1 != 0
			r.inherited = must&2 != 0
			r.oursMay = may&1 != 0
			recs = append(recs, r)
		}
	}
	want := map[string][2]bool{"for_each": {false, true}, "labels": {true, true}, "": {true, true}}
	n := 0
	// one append may serve several attribute names (a loop over a list of names)
	var expanded []rec
	for _, r := range recs {
		for _, a := range strings.Split(r.attr, "|") {
			r2 := r
			r2.attr = a
			expanded = append(expanded, r2)
		}
	}
	for _, r := range expanded {
		w, known := want[r.attr]
		if !known {
			continue
		}
		n++
		name := r.attr
		if name == "" {
			name = "content-attributes"
		}
		key := "ext/dynblock.WalkVariablesNode.Visit:filter[" + name + "]"
		got := [2]bool{r.ours, r.inherited}
		msg := ""
		switch {
		case r.attr == "for_each" && r.oursMay:
			msg = "references of for_each are filtered against the block's own iterator name, but for_each is evaluated in the enclosing scope: a variable with that name is required and not reported"
		case !r.inherited:
			msg = "references are not filtered against inherited iterators: iterator names are reported as required variables"
		case w[0] && !r.ours:
			msg = "references are not filtered against the block's own iterator: the iterator name is reported as a required variable"
		}
		c.Check(got == w && !(r.attr == "for_each" && r.oursMay), "dyn.filter", key, r.pos, "filters as the expansion binds", msg)
	}
	c.Floor("dyn.filter appends", n, 3, "content attributes, for_each, labels")
	// exprWrap.Variables vs iteration.EvalContext
	ev := c.P.LookupFunc("ext/dynblock", "iteration.EvalContext")
	wv := c.P.LookupFunc("ext/dynblock", "exprWrap.Variables")
	if ev == nil || wv == nil {
		c.CheckerFail("dyn.filter", "anchor iteration.EvalContext / exprWrap.Variables does not resolve")
		return
	}
	c.Fn(FuncName(ev))
	c.Fn(FuncName(wv))
	bound := map[string]bool{}
	for _, b := range ev.Blocks {
		for _, ins := range b.Instrs {
			if mu, ok := ins.(*ssa.MapUpdate); ok {
				if isVariablesMap(mu.Map) {
					for fv := range fieldTrail(mu.Key) {
						bound[fv.Name()] = true
					}
				}
			}
		}
	}
	filtered := map[string]bool{}
	// the conditions of Variables itself and of the helpers of the package it calls (a predicate
	// such as refersToIterator may hold the tests); values a helper returns count as conditions
	for _, f := range moduleCallees(wv, 2, map[*ssa.Function]bool{}) {
		if fnPkg(f) == nil || fnPkg(f).Path() != dynblockPath {
			continue
		}
		for _, b := range f.Blocks {
			switch last := b.Instrs[len(b.Instrs)-1].(type) {
			case *ssa.If:
				for fv := range condFields(last.Cond) {
					filtered[fv] = true
				}
			case *ssa.Return:
				if f != wv {
					for _, r := range last.Results {
						if bt, ok := r.Type().Underlying().(*types.Basic); ok && bt.Kind() == types.Bool {
							for fv := range condFields(r) {
								filtered[fv] = true
							}
						}
					}
				}
			}
		}
	}
	var bn, fl []string
	for k := range bound {
		bn = append(bn, k)
	}
	for k := range filtered {
		if k == "IteratorName" || k == "Inherited" {
			fl = append(fl, k)
		}
	}
	sort.Strings(bn)
	sort.Strings(fl)
	c.Check(strings.Join(bn, ",") == strings.Join(fl, ","), "dyn.filter", "ext/dynblock.exprWrap.Variables:names", wv.Pos(), "filters "+strings.Join(fl, ","),
		"exprWrap.Variables filters by {"+strings.Join(fl, ",")+"} but iteration.EvalContext binds {"+strings.Join(bn, ",")+"}")
}

const dynblockPath = modPath + "/ext/dynblock"

// appendedElem: the single element appended by append(xs, elem).
func appendedElem(call *ssa.Call) ssa.Value {
	if sl, ok := call.Call.Args[1].(*ssa.Slice); ok {
		if al, ok := sl.X.(*ssa.Alloc); ok {
			if sts := storesInto(al); len(sts) == 1 {
				return sts[0].Val
			}
		}
	}
	return nil
}

// filterFacts: which iterator filters (bit 1: own iterator name compared with RootName();
// bit 2: membership in Inherited) have been applied to traversal T on every path (must) / some
// path (may) from T's definition to block `at`. On the nil edge of a test of an *iteration
// pointer every filter is vacuous (nothing to filter against).
func filterFacts(fn *ssa.Function, at *ssa.BasicBlock, T ssa.Value) (must, may int) {
	start := fn.Blocks[0]
	if ins, ok := T.(ssa.Instruction); ok && ins.Block() != nil {
		start = ins.Block()
	}
	about := func(cond ssa.Value) bool {
		if T == nil {
			return true
		}
		seen := map[ssa.Value]bool{}
		var walk func(v ssa.Value, d int) bool
		walk = func(v ssa.Value, d int) bool {
			if v == nil || seen[v] || d > 12 {
				return false
			}
			seen[v] = true
			if v == T {
				return true
			}
			switch x := v.(type) {
			case *ssa.BinOp:
				return walk(x.X, d+1) || walk(x.Y, d+1)
			case *ssa.UnOp:
				return walk(x.X, d+1)
			case *ssa.Phi:
				for _, e := range x.Edges {
					if walk(e, d+1) {
						return true
					}
				}
			case *ssa.Extract:
				return walk(x.Tuple, d+1)
			case *ssa.Lookup:
				return walk(x.Index, d+1)
			case *ssa.Call:
				for _, a := range x.Call.Args {
					if walk(a, d+1) {
						return true
					}
				}
			}
			return false
		}
		return walk(cond, 0)
	}
	gen := func(p *ssa.BasicBlock, succ int) int {
		iff, ok := lastIf(p)
		if !ok {
			return 0
		}
		// nil test of an iteration pointer
		if bo, ok := iff.Cond.(*ssa.BinOp); ok && (bo.Op == token.EQL || bo.Op == token.NEQ) {
			for _, pr := range [][2]ssa.Value{{bo.X, bo.Y}, {bo.Y, bo.X}} {
				if isNilConst(pr[1]) {
					if pt, ok := pr[0].Type().(*types.Pointer); ok && isNamed(pt.Elem(), dynblockPath, "iteration") {
						nilEdge := 0
						if bo.Op == token.NEQ {
							nilEdge = 1
						}
						if succ == nilEdge {
							return 3
						}
						return 0
					}
				}
			}
		}
		if !about(iff.Cond) {
			return 0
		}
		o, i := condKinds(iff.Cond, map[ssa.Value]bool{})
		g := 0
		if o {
			g |= 1
		}
		if i {
			g |= 2
		}
		// the filter has been applied to T only on the edge on which the test says "not an
		// iterator" (when that polarity can be read off the condition)
		switch iteratorPolarity(iff.Cond, 0) {
		case 1: // true means "is an iterator": passed on the false edge
			if succ == 0 {
				return 0
			}
		case -1:
			if succ == 1 {
				return 0
			}
		}
		return g
	}
	reach := reachFrom(fn, start)
	reach[start] = true
	mustIn := map[*ssa.BasicBlock]int{}
	mayIn := map[*ssa.BasicBlock]int{}
	for b := range reach {
		mustIn[b] = 3
	}
	mustIn[start] = 0
	for changed := true; changed; {
		changed = false
		for _, b := range fn.Blocks {
			if !reach[b] || b == start {
				continue
			}
			m, y, any := 3, 0, false
			for _, p := range b.Preds {
				if !reach[p] {
					continue
				}
				for k, su := range p.Succs {
					if su != b {
						continue
					}
					any = true
					g := gen(p, k)
					m &= mustIn[p] | g
					y |= mayIn[p] | g
				}
			}
			if !any {
				m = 0
			}
			if m != mustIn[b] || y != mayIn[b] {
				mustIn[b], mayIn[b] = m, y
				changed = true
			}
		}
	}
	return mustIn[at], mayIn[at]
}

func sliceElem(t types.Type) types.Type {
	if s, ok := t.Underlying().(*types.Slice); ok {
		return s.Elem()
	}
	return t
}

// attrKeyOf: the constant string key of a map lookup on the trail of v ("" if none).
func attrKeyOf(v ssa.Value) string {
	seen := map[ssa.Value]bool{}
	var walk func(v ssa.Value, d int) string
	walk = func(v ssa.Value, d int) string {
		if v == nil || seen[v] || d > 40 {
			return ""
		}
		seen[v] = true
		switch x := v.(type) {
		case *ssa.Lookup:
			if s, ok := x.Index.(*ssa.Const); ok && s.Value != nil {
				return strings.Trim(s.Value.ExactString(), "\"")
			}
			if isBasicString(x.Index.Type()) {
				// a key drawn from a literal list of names
				if ks := constStringsOf(x.Index, map[ssa.Value]bool{}); len(ks) > 0 {
					sort.Strings(ks)
					return strings.Join(ks, "|")
				}
			}
			return walk(x.X, d+1)
		case *ssa.UnOp:
			return walk(x.X, d+1)
		case *ssa.FieldAddr:
			return walk(x.X, d+1)
		case *ssa.IndexAddr:
			return walk(x.X, d+1)
		case *ssa.Extract:
			return walk(x.Tuple, d+1)
		case *ssa.Next:
			return walk(x.Iter, d+1)
		case *ssa.Range:
			return walk(x.X, d+1)
		case *ssa.Slice:
			if al, ok := x.X.(*ssa.Alloc); ok {
				for _, st := range storesInto(al) {
					if r := walk(st.Val, d+1); r != "" {
						return r
					}
				}
				return ""
			}
			return walk(x.X, d+1)
		case *ssa.Call:
			if x.Call.IsInvoke() {
				return walk(x.Call.Value, d+1)
			}
			for _, a := range x.Call.Args {
				if r := walk(a, d+1); r != "" {
					return r
				}
			}
		case *ssa.Phi:
			for _, e := range x.Edges {
				if r := walk(e, d+1); r != "" {
					return r
				}
			}
		}
		return ""
	}
	return walk(v, 0)
}

// condKinds: does the condition compare a root name with an iterator name ("ours"), and/or
// look a root name up in an Inherited map?
func condKinds(v ssa.Value, seen map[ssa.Value]bool) (ours, inherited bool) {
	if v == nil || seen[v] {
		return
	}
	seen[v] = true
	switch x := v.(type) {
	case *ssa.UnOp:
		return condKinds(x.X, seen)
	case *ssa.BinOp:
		if x.Op == token.EQL || x.Op == token.NEQ {
			isRootName := func(v ssa.Value) bool {
				if rootNameParams[v] {
					return true
				}
				call, ok := v.(*ssa.Call)
				return ok && calleeOf(&call.Call).name == "RootName"
			}
			if isBasicString(x.X.Type()) && (isRootName(x.X) || isRootName(x.Y)) {
				ours = true
			}
		}
		o1, i1 := condKinds(x.X, seen)
		o2, i2 := condKinds(x.Y, seen)
		return ours || o1 || o2, i1 || i2
	case *ssa.Phi:
		for _, e := range x.Edges {
			o, i := condKinds(e, seen)
			ours, inherited = ours || o, inherited || i
		}
	case *ssa.Extract:
		if lk, ok := x.Tuple.(*ssa.Lookup); ok && x.Index == 1 {
			if lf := loadedField(lk.X); lf != nil && lf.Name() == "Inherited" {
				inherited = true
			}
		}
	case *ssa.Call:
		o, i, _ := dynPredSummary(x)
		return o, i
	}
	return
}

// parameters of predicate helpers that receive traversal.RootName() at a call site
var rootNameParams = map[ssa.Value]bool{}

// dynPredSummary: a call of a boolean helper of ext/dynblock in a filter condition: which iterator
// tests the helper makes on the paths that are feasible for the constant boolean arguments of this
// call, and whether `true` means "is an iterator" (1), "is not" (-1) or cannot be told (0).
func dynPredSummary(call *ssa.Call) (ours, inherited bool, pol int) {
	h := call.Call.StaticCallee()
	if h == nil || len(h.Blocks) == 0 || fnPkg(h) == nil || fnPkg(h).Path() != dynblockPath {
		return
	}
	if bt, ok := call.Type().Underlying().(*types.Basic); !ok || bt.Kind() != types.Bool {
		return
	}
	consts := map[ssa.Value]bool{}
	isConst := map[ssa.Value]bool{}
	for k, a := range call.Call.Args {
		if ac, ok := a.(*ssa.Call); ok && calleeOf(&ac.Call).name == "RootName" && k < len(h.Params) {
			rootNameParams[h.Params[k]] = true // the helper is handed the root name of the traversal
		}
		if cn, ok := a.(*ssa.Const); ok && cn.Value != nil && k < len(h.Params) {
			if cn.Value.String() == "true" || cn.Value.String() == "false" {
				isConst[h.Params[k]] = true
				consts[h.Params[k]] = cn.Value.String() == "true"
			}
		}
	}
	// feasible blocks
	feas := map[*ssa.BasicBlock]bool{}
	var walk func(b *ssa.BasicBlock)
	walk = func(b *ssa.BasicBlock) {
		if feas[b] {
			return
		}
		feas[b] = true
		if iff, ok := lastIf(b); ok {
			cond, neg := iff.Cond, false
			if u, ok := cond.(*ssa.UnOp); ok && u.Op == token.NOT {
				cond, neg = u.X, true
			}
			if isConst[cond] {
				v := consts[cond] != neg
				if v {
					walk(b.Succs[0])
				} else {
					walk(b.Succs[1])
				}
				return
			}
		}
		for _, su := range b.Succs {
			walk(su)
		}
	}
	walk(h.Blocks[0])
	pol = 2 // not yet known
	setPol := func(p int) {
		if pol == 2 {
			pol = p
		} else if pol != p {
			pol = 0
		}
	}
	for b := range feas {
		if iff, ok := lastIf(b); ok && !isConst[iff.Cond] {
			o, i := condKinds(iff.Cond, map[ssa.Value]bool{})
			ours, inherited = ours || o, inherited || i
			// a `return true` on the matching edge: true means "is an iterator"
			if p := iteratorPolarity(iff.Cond, 0); p != 0 && (o || i) {
				matchEdge := 0
				if p < 0 {
					matchEdge = 1
				}
				if ret, ok := b.Succs[matchEdge].Instrs[len(b.Succs[matchEdge].Instrs)-1].(*ssa.Return); ok && len(ret.Results) == 1 {
					if cn, ok := ret.Results[0].(*ssa.Const); ok && cn.Value != nil {
						if cn.Value.String() == "true" {
							setPol(1)
						} else {
							setPol(-1)
						}
					}
				}
			}
		}
		if ret, ok := b.Instrs[len(b.Instrs)-1].(*ssa.Return); ok && len(ret.Results) == 1 {
			if _, isC := ret.Results[0].(*ssa.Const); !isC {
				o, i := condKinds(ret.Results[0], map[ssa.Value]bool{})
				ours, inherited = ours || o, inherited || i
				if p := iteratorPolarity(ret.Results[0], 0); p != 0 {
					setPol(p)
				} else if o || i {
					setPol(0)
				}
			}
		}
	}
	if pol == 2 {
		pol = 0
	}
	return
}

func isBasicString(t types.Type) bool {
	b, ok := t.Underlying().(*types.Basic)
	return ok && b.Kind() == types.String
}

func condFields(v ssa.Value) map[string]bool {
	out := map[string]bool{}
	seen := map[ssa.Value]bool{}
	var walk func(v ssa.Value)
	walk = func(v ssa.Value) {
		if v == nil || seen[v] {
			return
		}
		seen[v] = true
		for fv := range fieldTrail(v) {
			out[fv.Name()] = true
		}
		switch x := v.(type) {
		case *ssa.BinOp:
			walk(x.X)
			walk(x.Y)
		case *ssa.UnOp:
			walk(x.X)
		case *ssa.Extract:
			if lk, ok := x.Tuple.(*ssa.Lookup); ok {
				walk(lk.X)
				walk(lk.Index)
			}
		}
	}
	walk(v)
	return out
}

// constStringsOf: the constant strings a value may hold when it is drawn from a literal slice.
func constStringsOf(v ssa.Value, seen map[ssa.Value]bool) []string {
	if v == nil || seen[v] {
		return nil
	}
	seen[v] = true
	switch x := v.(type) {
	case *ssa.Const:
		if x.Value != nil {
			return []string{strings.Trim(x.Value.ExactString(), "\"")}
		}
	case *ssa.UnOp:
		return constStringsOf(x.X, seen)
	case *ssa.IndexAddr:
		return constStringsOf(x.X, seen)
	case *ssa.Slice:
		return constStringsOf(x.X, seen)
	case *ssa.Alloc:
		var out []string
		for _, st := range storesInto(x) {
			out = append(out, constStringsOf(st.Val, seen)...)
		}
		return out
	case *ssa.Phi:
		var out []string
		for _, e := range x.Edges {
			out = append(out, constStringsOf(e, seen)...)
		}
		return out
	case *ssa.Extract:
		return constStringsOf(x.Tuple, seen)
	case *ssa.Next:
		return constStringsOf(x.Iter, seen)
	case *ssa.Range:
		return constStringsOf(x.X, seen)
	}
	return nil
}

// R7: the methods of a spec that act on one block of a type act on the same one.
func c07BlockSelection(c *Ctx) {
	c.Rule("R7 spec.select: in every hcldec function (the decode, variablesNeeded, sourceRange methods of the specs and their helpers) that picks a single *hcl.Block out of content.Blocks in a loop, the block picked is the FIRST matching one: the assignment is followed by leaving the loop, or is made only while nothing has been picked yet — so the variables reported, the source range and the value decoded all belong to the same block")
	n := 0
	for _, fn := range c.P.pkgFuncs("hcldec") {
		for _, b := range fn.Blocks {
			for _, ins := range b.Instrs {
				phi, ok := ins.(*ssa.Phi)
				if !ok {
					break
				}
				pt, isPtr := phi.Type().(*types.Pointer)
				if !isPtr || !isNamed(pt.Elem(), modPath, "Block") {
					continue
				}
				// a loop-header phi: one edge is the phi itself or comes from inside a cycle
				inLoop := false
				for _, scc := range sccBlocks(fn.Blocks, nil) {
					if len(scc) > 1 {
						for _, sb := range scc {
							if sb == b {
								inLoop = true
							}
						}
					}
				}
				hasNil := false
				for _, e := range phi.Edges {
					if isNilConst(e) {
						hasNil = true
					}
				}
				if !inLoop || !hasNil {
					continue
				}
				n++
				c.Fn(FuncName(fn))
				c.Sites++
				bad := token.NoPos
				for i, e := range phi.Edges {
					if e == ssa.Value(phi) || isNilConst(e) {
						continue
					}
					if inner, ok := e.(*ssa.Phi); ok {
						// merged continue paths: every non-self edge of the inner phi is judged
						all := true
						for j, e2 := range inner.Edges {
							if e2 == ssa.Value(phi) || isNilConst(e2) {
								continue
							}
							if !underNilTest(inner.Block().Preds[j], phi) {
								all = false
							}
						}
						if all {
							continue
						}
					}
					// a new pick flows round the loop: only fine when made while nothing was picked
					if !underNilTest(b.Preds[i], phi) {
						bad = b.Preds[i].Instrs[0].Pos()
						if !bad.IsValid() {
							bad = fn.Pos()
						}
					}
				}
				c.Check(!bad.IsValid(), "spec.select", FuncName(fn)+":pick["+phi.Comment+"]", phi.Pos(), "first matching block",
					"the loop keeps replacing the picked block with later matches (last match wins) while the other methods of the spec act on the first one: variables, source range and decoded value no longer belong to the same block")
			}
		}
	}
	c.Floor("spec.select loops", n, 1, "the block selection of BlockSpec.decode")
}

// underNilTest: block b is dominated by the edge on which v == nil.
func underNilTest(b *ssa.BasicBlock, v ssa.Value) bool {
	for d := b; d != nil; d = d.Idom() {
		idom := d.Idom()
		if idom == nil {
			break
		}
		iff, ok := lastIf(idom)
		if !ok || len(d.Preds) != 1 {
			continue
		}
		bo, ok := iff.Cond.(*ssa.BinOp)
		if !ok || (bo.Op != token.EQL && bo.Op != token.NEQ) {
			continue
		}
		isV := (bo.X == v && isNilConst(bo.Y)) || (bo.Y == v && isNilConst(bo.X))
		if !isV {
			continue
		}
		nilEdge := 0
		if bo.Op == token.NEQ {
			nilEdge = 1
		}
		if idom.Succs[nilEdge] == d {
			return true
		}
	}
	return false
}

// isVariablesMap: m is the Variables map of an EvalContext: loaded from that field, or a map made
// here that is stored into that field.
func isVariablesMap(m ssa.Value) bool {
	if lf := loadedField(m); lf != nil && lf.Name() == "Variables" {
		return true
	}
	mm, ok := m.(*ssa.MakeMap)
	if !ok {
		return false
	}
	for _, r := range *mm.Referrers() {
		if st, ok := r.(*ssa.Store); ok && st.Val == ssa.Value(mm) {
			if fa, ok := st.Addr.(*ssa.FieldAddr); ok {
				if fv := fieldVarOf(fa.X.Type(), fa.Field); fv != nil && fv.Name() == "Variables" {
					return true
				}
			}
		}
	}
	return false
}

// R8: the variables walker pops exactly the scopes it pushed.
func c07ScopePushPop(c *Ctx) {
	c.Rule("R8 scope.pushpop: variablesWalker.Enter extends localScopes and variablesWalker.Exit shrinks it for the same dynamic node type, and that type is the one the walkChildNodes methods construct (ChildScope as a value): a scope that is pushed and never popped hides every later reference to the same name in the rest of the expression")
	enter := c.P.LookupFunc("hclsyntax", "variablesWalker.Enter")
	exit := c.P.LookupFunc("hclsyntax", "variablesWalker.Exit")
	if enter == nil || exit == nil {
		c.CheckerFail("scope.pushpop", "anchor variablesWalker.Enter/Exit does not resolve")
		return
	}
	c.Fn(FuncName(enter))
	c.Fn(FuncName(exit))
	// the node type asserted on the way to the store into w.localScopes
	storesScopes := func(fn *ssa.Function) *ssa.Store {
		for _, b := range fn.Blocks {
			for _, ins := range b.Instrs {
				if st, ok := ins.(*ssa.Store); ok {
					if fa, ok := st.Addr.(*ssa.FieldAddr); ok {
						if fv := fieldVarOf(fa.X.Type(), fa.Field); fv != nil && fv.Name() == "localScopes" {
							return st
						}
					}
				}
			}
		}
		return nil
	}
	// helpers of the walker (methods on the same receiver) that update the stack for Enter / Exit
	helpers := map[*ssa.Function][]*ssa.Function{}
	guardType := func(fn *ssa.Function) (types.Type, token.Pos) {
		for _, b := range fn.Blocks {
			for _, ins := range b.Instrs {
				var pos token.Pos
				switch x := ins.(type) {
				case *ssa.Store:
					fa, ok := x.Addr.(*ssa.FieldAddr)
					if !ok {
						continue
					}
					if fv := fieldVarOf(fa.X.Type(), fa.Field); fv == nil || fv.Name() != "localScopes" {
						continue
					}
					pos = x.Pos()
				case *ssa.Call:
					cal := x.Call.StaticCallee()
					if cal == nil || cal == fn || cal.Signature.Recv() == nil || len(cal.Blocks) == 0 || len(x.Call.Args) == 0 || !(x.Call.Args[0] == ssa.Value(fn.Params[0]) || isSpillOf(x.Call.Args[0], fn.Params[0])) || storesScopes(cal) == nil {
						continue
					}
					helpers[fn] = append(helpers[fn], cal)
					c.Fn(FuncName(cal))
					pos = x.Pos()
				default:
					continue
				}
				st := struct{ Pos func() token.Pos }{func() token.Pos { return pos }}
				for d := b; d != nil && d.Idom() != nil; d = d.Idom() {
					iff, ok := lastIf(d.Idom())
					if !ok || d.Idom().Succs[0] != d {
						continue
					}
					if ex, ok := iff.Cond.(*ssa.Extract); ok && ex.Index == 1 {
						if ta, ok := ex.Tuple.(*ssa.TypeAssert); ok {
							return ta.AssertedType, st.Pos()
						}
					}
				}
				return nil, st.Pos()
			}
		}
		return nil, token.NoPos
	}
	te, pe := guardType(enter)
	tx, px := guardType(exit)
	c.Sites += 2
	if !pe.IsValid() || !px.IsValid() {
		c.Fail("scope.pushpop", "hclsyntax.variablesWalker:stack", enter.Pos(), "Enter or Exit no longer updates localScopes")
		return
	}
	c.Check(te != nil && tx != nil && types.Identical(te, tx), "scope.pushpop", "hclsyntax.variablesWalker:same-type", px, "push and pop under the same node type",
		fmt.Sprintf("Enter pushes a scope for nodes of type %v but Exit pops for %v: scopes are never popped (or popped for the wrong node)", te, tx))
	// the type the walk constructs
	constructed := false
	for _, fn := range c.P.pkgFuncs("hclsyntax") {
		for _, b := range fn.Blocks {
			for _, ins := range b.Instrs {
				if mi, ok := ins.(*ssa.MakeInterface); ok && te != nil && types.Identical(mi.X.Type(), te) {
					constructed = true
				}
			}
		}
	}
	// the pop happens whenever a scope is there to pop: a guard may protect the empty stack
	// (len ≥ 1) but must not demand more
	for _, pfn := range append([]*ssa.Function{exit}, helpers[exit]...) {
		for _, b := range pfn.Blocks {
			for _, ins := range b.Instrs {
				sl, ok := ins.(*ssa.Slice)
				if !ok || sl.High == nil {
					continue
				}
				lx, cc, ok := lenMinus(sl.High)
				if !ok || cc != 1 {
					continue
				}
				bc := &boundsCtx{fn: pfn}
				if !bc.sameSeq(lx, sl.X) {
					continue
				}
				site := &idxSite{fn: pfn, x: sl.X, need: 2}
				bc.prove(site, sl)
				c.Sites++
				c.Check(!site.ok, "scope.pushpop", "hclsyntax.variablesWalker:pop.guard", sl.Pos(), "the pop is not held back while a scope is on the stack",
					"the pop in Exit only happens when at least two scopes are on the stack ("+site.why+"): the outermost scope is never popped, so the names it binds hide root variables of the same name for the rest of the expression")
			}
		}
	}
	c.Check(constructed, "scope.pushpop", "hclsyntax.variablesWalker:constructed", pe, "the pushed node type is the one walkChildNodes constructs", fmt.Sprintf("no walkChildNodes method constructs a node of the type %v that Enter pushes a scope for", te))
}

// iteratorPolarity: +1 if cond being true means "the root name is an iterator name" (x == name,
// the ok of a lookup in Inherited, a disjunction or phi of such), -1 if it means the opposite,
// 0 if it cannot be told.
func iteratorPolarity(cond ssa.Value, d int) int {
	if d > 6 {
		return 0
	}
	switch x := cond.(type) {
	case *ssa.UnOp:
		if x.Op == token.NOT {
			return -iteratorPolarity(x.X, d+1)
		}
	case *ssa.BinOp:
		switch x.Op {
		case token.EQL:
			if isBasicString(x.X.Type()) {
				return 1
			}
		case token.NEQ:
			if isBasicString(x.X.Type()) {
				return -1
			}
		}
	case *ssa.Extract:
		if _, ok := x.Tuple.(*ssa.Lookup); ok && x.Index == 1 {
			return 1
		}
	case *ssa.Call:
		_, _, p := dynPredSummary(x)
		return p
	case *ssa.Phi:
		pol := 0
		for _, e := range x.Edges {
			if _, isConst := e.(*ssa.Const); isConst {
				continue
			}
			p := iteratorPolarity(e, d+1)
			if p == 0 || (pol != 0 && p != pol) {
				return 0
			}
			pol = p
		}
		return pol
	}
	return 0
}

// R9 vars.entry: hcldec.Variables asks the spec itself and every same-body child, whatever the
// body holds: variables can come from the spec (ExprSpec, defaults) as well as from the body.
func c07VarsEntry(c *Ctx) {
	c.Rule("R9 vars.entry: every return of hcldec.Variables is dominated by the test whether the root spec needs variables (type assertion to the interface that has variablesNeeded) and by the call spec.visitSameBodyChildren: no shortcut on the shape of the body's content skips specs whose expressions live in the spec (ExprSpec, DefaultSpec fallbacks)")
	fn := c.P.LookupFunc("hcldec", "Variables")
	if fn == nil || len(fn.Params) < 2 {
		c.CheckerFail("vars.entry", "anchor hcldec.Variables does not resolve")
		return
	}
	c.Fn(FuncName(fn))
	spec := fn.Params[1]
	isSpec := func(v ssa.Value) bool {
		return v == ssa.Value(spec) || isSpillOf(v, spec) || (func() bool {
			if u, ok := v.(*ssa.UnOp); ok && u.Op == token.MUL {
				return isSpillOf(u.X, spec)
			}
			return false
		})()
	}
	// what a function does with one of its values: asks it (type assertion to the interface that
	// has variablesNeeded) / visits its same-body children
	asksAndVisits := func(f *ssa.Function, is func(ssa.Value) bool) (asks, visits []*ssa.BasicBlock) {
		for _, b := range f.Blocks {
			for _, ins := range b.Instrs {
				switch x := ins.(type) {
				case *ssa.TypeAssert:
					if it, ok := x.AssertedType.Underlying().(*types.Interface); ok && is(x.X) {
						for i := 0; i < it.NumMethods(); i++ {
							if isVarsNeededSig(it.Method(i).Type().(*types.Signature)) {
								asks = append(asks, b)
							}
						}
					}
				case *ssa.Call:
					if x.Call.IsInvoke() && isVisitChildrenSig(x.Call.Method.Type().(*types.Signature)) && is(x.Call.Value) {
						visits = append(visits, b)
					}
				}
			}
		}
		return
	}
	var closureOf func(v ssa.Value) *ssa.Function
	closureOf = func(v ssa.Value) *ssa.Function {
		if ct, ok := v.(*ssa.ChangeType); ok {
			return closureOf(ct.X)
		}
		if mc, ok := v.(*ssa.MakeClosure); ok {
			return mc.Fn.(*ssa.Function)
		}
		if u, ok := v.(*ssa.UnOp); ok && u.Op == token.MUL {
			if al, ok := u.X.(*ssa.Alloc); ok {
				var f *ssa.Function
				for _, st := range storesInto(al) {
					if g := closureOf(st.Val); g != nil {
						f = g
					}
				}
				return f
			}
		}
		return nil
	}
	asserts, visits := asksAndVisits(fn, isSpec)
	// a local closure that is handed the spec and does either for its parameter
	for _, b := range fn.Blocks {
		for _, ins := range b.Instrs {
			call, ok := ins.(*ssa.Call)
			if !ok || call.Call.IsInvoke() {
				continue
			}
			g := closureOf(call.Call.Value)
			if g == nil || len(g.Params) == 0 {
				continue
			}
			for ai, a := range call.Call.Args {
				if !isSpec(a) || ai >= len(g.Params) {
					continue
				}
				par := g.Params[ai]
				ga, gv := asksAndVisits(g, func(v ssa.Value) bool { return v == ssa.Value(par) || isSpillOf(v, par) })
				// unconditional in the closure: the block dominates every return of it
				every := func(bs []*ssa.BasicBlock) bool {
					for _, gb := range g.Blocks {
						if _, isRet := gb.Instrs[len(gb.Instrs)-1].(*ssa.Return); !isRet {
							continue
						}
						ok := false
						for _, d := range bs {
							if d == gb || d.Dominates(gb) {
								ok = true
							}
						}
						if !ok {
							return false
						}
					}
					return len(bs) > 0
				}
				if every(ga) {
					asserts = append(asserts, b)
				}
				if every(gv) {
					visits = append(visits, b)
				}
			}
		}
	}
	dominated := func(by []*ssa.BasicBlock, b *ssa.BasicBlock) bool {
		for _, d := range by {
			if d == b || d.Dominates(b) {
				return true
			}
		}
		return false
	}
	n := 0
	for _, b := range fn.Blocks {
		ret, ok := b.Instrs[len(b.Instrs)-1].(*ssa.Return)
		if !ok {
			continue
		}
		n++
		c.Check(dominated(asserts, b), "vars.entry", FuncName(fn)+":return.root", ret.Pos(), "after asking the root spec",
			"hcldec.Variables returns on a path that has not asked the root spec for the variables it needs")
		c.Check(dominated(visits, b), "vars.entry", FuncName(fn)+":return.children", ret.Pos(), "after visiting the same-body children",
			"hcldec.Variables returns on a path that has not visited the spec's same-body children: variables of nested specs (ExprSpec, DefaultSpec fallbacks, object attributes) are missing from the reported set")
	}
	c.Floor("vars.entry returns", n, 1, "hcldec.Variables")
}

// the method that reports the variables a spec needs: func(*hcl.BodyContent) []hcl.Traversal
func isVarsNeededSig(sig *types.Signature) bool {
	if sig.Params().Len() != 1 || sig.Results().Len() != 1 {
		return false
	}
	pt, ok := sig.Params().At(0).Type().(*types.Pointer)
	if !ok || !isNamed(pt.Elem(), modPath, "BodyContent") {
		return false
	}
	sl, ok := sig.Results().At(0).Type().Underlying().(*types.Slice)
	return ok && isNamed(sl.Elem(), modPath, "Traversal")
}

// the method that hands a spec's same-body children to a callback: func(func(Spec))
func isVisitChildrenSig(sig *types.Signature) bool {
	if sig.Params().Len() != 1 || sig.Results().Len() != 0 {
		return false
	}
	cb, ok := sig.Params().At(0).Type().Underlying().(*types.Signature)
	if !ok || cb.Params().Len() != 1 || cb.Results().Len() != 0 {
		return false
	}
	return isNamed(cb.Params().At(0).Type(), modPath+"/hcldec", "Spec")
}

// R10 vars.everyitem: a loop that collects variable traversals visits every item.
func c07CollectLoops(c *Ctx) {
	c.Rule("R10 vars.everyitem: in hcldec, ext/dynblock and hclsyntax (variables.go), a loop that appends to a []hcl.Traversal result is left only through its header (when the range is exhausted): no break or return inside the loop body can cut the collection short, so a traversal that is filtered out never hides the traversals after it")
	n := 0
	for _, fn := range c.P.pkgFuncs("hcldec", "ext/dynblock", "hclsyntax") {
		file := c.P.Position(fn.Pos())
		if strings.HasPrefix(file, "hclsyntax/") && !strings.HasPrefix(file, "hclsyntax/variables.go") {
			continue
		}
		for _, scc := range sccBlocks(fn.Blocks, nil) {
			if len(scc) < 2 {
				continue
			}
			in := map[*ssa.BasicBlock]bool{}
			for _, b := range scc {
				in[b] = true
			}
			collects := token.NoPos
			for _, b := range scc {
				for _, ins := range b.Instrs {
					if call, ok := ins.(*ssa.Call); ok {
						if bi, ok := call.Call.Value.(*ssa.Builtin); ok && bi.Name() == "append" {
							if sl, ok := call.Type().Underlying().(*types.Slice); ok && isNamed(sl.Elem(), modPath, "Traversal") {
								collects = call.Pos()
							}
						}
					}
				}
			}
			if collects == token.NoPos {
				continue
			}
			var header *ssa.BasicBlock
			for _, b := range scc {
				for _, p := range b.Preds {
					if !in[p] {
						header = b
					}
				}
			}
			n++
			c.Sites++
			c.Fn(FuncName(fn))
			bad := token.NoPos
			for _, b := range scc {
				if b == header {
					continue
				}
				for _, su := range b.Succs {
					if !in[su] {
						for _, x := range b.Instrs {
							if x.Pos() != token.NoPos {
								bad = x.Pos()
							}
						}
						if bad == token.NoPos {
							bad = collects
						}
					}
				}
			}
			c.Check(bad == token.NoPos, "vars.everyitem", FuncName(fn)+":loop", collects, "left only when the items are exhausted",
				"the loop that collects variable traversals can be left from its body (break or return at "+c.P.Position(bad)+"): the traversals after that item are not reported")
		}
	}
	c.Floor("vars.everyitem loops", n, 3, "exprWrap.Variables, the dynblock walkers, hcldec variable collection")
}

// R11 walk.flags: a boolean field of the node that Value consults before it evaluates a
// sub-expression is consulted by walkChildNodes before it decides not to walk it.
func c07WalkFlags(c *Ctx) {
	c.Rule("R11 walk.flags: for every hclsyntax node type, if walkChildNodes visits an expression field only under a condition, then every boolean field of the node that Value reads in a condition on the way to evaluating that field is also read in a condition on the way to visiting it: the walk cannot skip a sub-expression by a test that ignores a flag which makes Value evaluate it")
	pkg := c.P.Pkg("hclsyntax")
	if pkg == nil {
		c.CheckerFail("walk.flags", "hclsyntax not loaded")
		return
	}
	boolFlags := func(fn *ssa.Function, at *ssa.BasicBlock) map[string]bool {
		out := map[string]bool{}
		recv := fn.Params[0]
		var scan func(v ssa.Value, d int)
		scan = func(v ssa.Value, d int) {
			if v == nil || d > 6 {
				return
			}
			switch x := v.(type) {
			case *ssa.UnOp:
				if x.Op == token.MUL {
					if fa, ok := x.X.(*ssa.FieldAddr); ok && (fa.X == ssa.Value(recv) || isSpillOf(fa.X, recv)) {
						if fv := fieldVarOf(fa.X.Type(), fa.Field); fv != nil {
							if bt, ok := fv.Type().Underlying().(*types.Basic); ok && bt.Kind() == types.Bool {
								out[fv.Name()] = true
							}
						}
						return
					}
				}
				scan(x.X, d+1)
			case *ssa.BinOp:
				scan(x.X, d+1)
				scan(x.Y, d+1)
			case *ssa.Phi:
				for _, e := range x.Edges {
					scan(e, d+1)
				}
			case *ssa.Call:
				// a method of the node that makes the decision: every boolean field it reads
				if cal := x.Call.StaticCallee(); cal != nil && len(cal.Blocks) > 0 && cal.Signature.Recv() != nil && len(x.Call.Args) > 0 &&
					(x.Call.Args[0] == ssa.Value(recv) || isSpillOf(x.Call.Args[0], recv)) {
					crecv := cal.Params[0]
					for _, cb := range cal.Blocks {
						for _, ci := range cb.Instrs {
							if fa, ok := ci.(*ssa.FieldAddr); ok && (fa.X == ssa.Value(crecv) || isSpillOf(fa.X, crecv)) {
								if fv := fieldVarOf(fa.X.Type(), fa.Field); fv != nil {
									if bt, ok := fv.Type().Underlying().(*types.Basic); ok && bt.Kind() == types.Bool {
										out[fv.Name()] = true
									}
								}
							}
						}
					}
				}
			}
		}
		for b := at; b != nil; b = b.Idom() {
			if dom := b.Idom(); dom != nil {
				if iff, ok := dom.Instrs[len(dom.Instrs)-1].(*ssa.If); ok {
					scan(iff.Cond, 0)
				}
			}
		}
		return out
	}
	// conditional: the function can return without passing through b, other than by leaving a
	// loop that contains b before its first iteration (an empty range)
	conditional := func(b *ssa.BasicBlock) bool {
		fn := b.Parent()
		inLoopWith := map[*ssa.BasicBlock]bool{}
		for _, scc := range sccBlocks(fn.Blocks, nil) {
			has := false
			for _, x := range scc {
				if x == b {
					has = true
				}
			}
			if has && len(scc) > 1 {
				for _, x := range scc {
					inLoopWith[x] = true
				}
			}
		}
		seen := map[*ssa.BasicBlock]bool{}
		var reach func(x *ssa.BasicBlock) bool
		reach = func(x *ssa.BasicBlock) bool {
			if x == b || seen[x] {
				return false
			}
			seen[x] = true
			if inLoopWith[x] {
				return false // entering the loop that holds b: its exit test is not a condition on visiting
			}
			if _, isRet := x.Instrs[len(x.Instrs)-1].(*ssa.Return); isRet {
				return true
			}
			for _, su := range x.Succs {
				if reach(su) {
					return true
				}
			}
			return false
		}
		return reach(fn.Blocks[0])
	}
	n := 0
	sc := pkg.Types.Scope()
	for _, name := range sc.Names() {
		tn, ok := sc.Lookup(name).(*types.TypeName)
		if !ok {
			continue
		}
		val := c.P.LookupFunc("hclsyntax", name+".Value")
		wcn := c.P.LookupFunc("hclsyntax", name+".walkChildNodes")
		if val == nil || wcn == nil || val.Signature.Recv() == nil || namedOf(val.Signature.Recv().Type()) != tn.Type() || len(wcn.Params) < 2 {
			continue
		}
		w := wcn.Params[len(wcn.Params)-1]
		// flags on the way to each walk call, per field
		walkFlags := map[*types.Var]map[string]bool{}
		for _, b := range wcn.Blocks {
			for _, ins := range b.Instrs {
				call, ok := ins.(*ssa.Call)
				if !ok || call.Call.Value != ssa.Value(w) || len(call.Call.Args) != 1 || !conditional(b) {
					continue
				}
				for _, fv := range exprFieldsOf(call.Call.Args[0]) {
					if walkFlags[fv] == nil {
						walkFlags[fv] = map[string]bool{}
					}
					for k := range boolFlags(wcn, b) {
						walkFlags[fv][k] = true
					}
				}
			}
		}
		if len(walkFlags) == 0 {
			continue
		}
		// flags on the way to each evaluation in Value
		evalFlags := map[*types.Var]map[string]bool{}
		for _, b := range val.Blocks {
			for _, ins := range b.Instrs {
				call, ok := ins.(*ssa.Call)
				if !ok || !call.Call.IsInvoke() || call.Call.Method.Name() != "Value" {
					continue
				}
				for _, fv := range exprFieldsOf(call.Call.Value) {
					if evalFlags[fv] == nil {
						evalFlags[fv] = map[string]bool{}
					}
					for k := range boolFlags(val, b) {
						evalFlags[fv][k] = true
					}
				}
			}
		}
		for fv, wf := range walkFlags {
			n++
			c.Sites++
			c.Fn(FuncName(wcn))
			var missing []string
			for k := range evalFlags[fv] {
				if !wf[k] {
					missing = append(missing, k)
				}
			}
			sort.Strings(missing)
			c.Check(len(missing) == 0, "walk.flags", fmt.Sprintf("hclsyntax.%s:field[%s]", name, fv.Name()), wcn.Pos(), "the walk consults every flag Value consults",
				"walkChildNodes visits "+fv.Name()+" only under a condition that does not read "+strings.Join(missing, ", ")+", which Value reads before it evaluates "+fv.Name()+": when the flag makes Value evaluate the expression although the walk's own test says otherwise, its variables are not reported")
		}
	}
	c.Floor("walk.flags conditional walks", n, 1, "ObjectConsKeyExpr")
}

// alwaysCalls: every path through the module function f from its entry to a return passes a call
// of target (directly or through such a function).
func alwaysCalls(f, target *ssa.Function, depth int) bool {
	if f == nil || target == nil || depth > 2 || !inModule(f) || len(f.Blocks) == 0 {
		return false
	}
	seen := map[*ssa.BasicBlock]bool{}
	var walk func(b *ssa.BasicBlock) bool
	walk = func(b *ssa.BasicBlock) bool {
		if seen[b] {
			return true
		}
		seen[b] = true
		for _, ins := range b.Instrs {
			if call, ok := ins.(*ssa.Call); ok {
				if cal := call.Call.StaticCallee(); cal == target || (cal != f && alwaysCalls(cal, target, depth+1)) {
					return true
				}
			}
			if _, ok := ins.(*ssa.Return); ok {
				return false
			}
		}
		for _, su := range b.Succs {
			if !walk(su) {
				return false
			}
		}
		return true
	}
	return walk(f.Blocks[0])
}

// visit.recurse: the spec-tree walkers of hcldec descend into the same-body children of every spec.
func c07VisitRecurse(c *Ctx) {
	c.Rule("visit.recurse: every visitor closure of hcldec that walks a spec tree by calling s.visitSameBodyChildren(itself) (ImpliedSchema, ChildBlockTypes, Variables, findLabelSpecs) makes that call on every path: wrappers such as DefaultSpec, ValidateSpec, TransformFuncSpec and RefineValueSpec are also attribute or block specs themselves, so a visitor that stops at 'a block spec is a leaf' loses the block specs they wrap — ChildBlockTypes then hides a block type from the dynamic-block variable walkers, Variables misses references")
	n := 0
	for _, fn := range c.P.pkgFuncs("hcldec") {
		if fn.Parent() == nil || len(fn.Params) != 1 || !isNamed(fn.Params[0].Type(), modPath+"/hcldec", "Spec") {
			continue
		}
		var site *ssa.Call
		siteBlocks := map[*ssa.BasicBlock]bool{}
		for _, b := range fn.Blocks {
			for _, ins := range b.Instrs {
				if call, ok := ins.(*ssa.Call); ok && call.Call.IsInvoke() && call.Call.Method.Name() == "visitSameBodyChildren" && call.Call.Value == ssa.Value(fn.Params[0]) {
					site = call
					siteBlocks[b] = true
				}
			}
		}
		if site == nil {
			continue
		}
		n++
		c.Sites++
		c.Fn(FuncName(fn))
		// every path from the entry to a return passes the call
		seen := map[*ssa.BasicBlock]bool{}
		var escapes func(b *ssa.BasicBlock) bool
		escapes = func(b *ssa.BasicBlock) bool {
			if siteBlocks[b] || seen[b] {
				return false
			}
			seen[b] = true
			if _, ok := b.Instrs[len(b.Instrs)-1].(*ssa.Return); ok {
				return true
			}
			for _, su := range b.Succs {
				if escapes(su) {
					return true
				}
			}
			return false
		}
		c.Check(!escapes(fn.Blocks[0]), "visit.recurse", FuncName(fn)+":recurse", site.Pos(), "descends on every path",
			"the visitor returns on some path without visiting the same-body children of the spec: specs wrapped by that spec (a block spec inside DefaultSpec{Primary: ValidateSpec{…}}) are not seen")
	}
	c.Floor("visit.recurse visitors", n, 4, "ImpliedSchema, ChildBlockTypes, Variables, findLabelSpecs")
}
