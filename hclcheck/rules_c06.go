package main

import (
	"fmt"
	"go/types"
	"sort"
	"strings"

	"golang.org/x/tools/go/ssa"
)

func init() { register("C06", checkC06) }

// flowBoundaries returns the functions whose returns must respect the mark
// discipline: every function (incl. closures) of the evaluation packages that
// returns something value-like.
func flowBoundaries(c *Ctx) []*ssa.Function {
	var out []*ssa.Function
	for _, fn := range c.P.pkgFuncs("hcl", "hclsyntax", "json", "hcldec", "ext/dynblock") {
		res := fn.Signature.Results()
		hasVal := false
		for i := 0; i < res.Len(); i++ {
			if valueLike(res.At(i).Type()) && !isDiagnosticsType(res.At(i).Type()) {
				hasVal = true
			}
		}
		if !hasVal {
			continue
		}
		file := c.P.Position(fn.Pos())
		// construction code (parser, scanner) creates values from source text only
		if strings.HasPrefix(file, "hclsyntax/parser") || strings.HasPrefix(file, "hclsyntax/scan") || strings.HasPrefix(file, "json/parser") || strings.HasPrefix(file, "json/scanner") {
			continue
		}
		// the static variable walkers (Variables / WalkVariables) handle traversals, never values
		if strings.HasPrefix(file, "ext/dynblock/variables") || strings.HasPrefix(file, "hcldec/variables") || strings.HasPrefix(file, "hclsyntax/variables") {
			continue
		}
		// a closure that only peels marks into its parent's accumulator is part of the parent
		if _, _, ok := peelSummary(fn); ok {
			continue
		}
		out = append(out, fn)
	}
	return out
}

func checkC06(c *Ctx) {
	c.Rule("Rq1/Rq2 flow: for every function of hcl, hclsyntax, json, hcldec, ext/dynblock that returns a cty value (all Value methods, Index, GetAttr, ApplyPath, traversal steps, Spec.decode, helpers, closures): every non-error return carries, on every path from the operand's evaluation, the marks of every operand whose content flows into the result (Rq1) or was branched on before the return (Rq2)")
	c.Rule("error returns (diagnostics containing a DiagError literal, appended before the return, or guarded by HasErrors) are exempt: the property constrains error-free results")
	fns := flowBoundaries(c)
	um, err := newUnmarkedEngine(c.P)
	if err != nil {
		c.CheckerFail("flow", err.Error())
		return
	}
	nRet, nErr, nSrc, nValueMethods := 0, 0, 0, 0
	for _, fn := range fns {
		name := FuncName(fn)
		c.Fn(name)
		if fn.Name() == "Value" {
			nValueMethods++
		}
		ff := newFlowFn(c.P, fn, um)
		res := ff.Check()
		if res.err != "" {
			c.Undecided("flow", name, fn.Pos(), res.err)
			continue
		}
		nRet += res.returns
		nErr += res.errReturns
		nSrc += len(res.sources)
		byRet := map[*ssa.Return][]flowViolation{}
		for _, v := range res.viol {
			byRet[v.ret] = append(byRet[v.ret], v)
		}
		for _, r := range res.checked {
			key := fmt.Sprintf("%s:return[%s]", name, res.retDesc[r])
			vs := byRet[r]
			if len(vs) == 0 {
				c.OK("flow", key, r.Pos(), "")
				continue
			}
			// one obligation per (return, operand)
			sort.Slice(vs, func(i, j int) bool { return vs[i].src.name < vs[j].src.name })
			seen := map[string]bool{}
			for _, v := range vs {
				k2 := key + "<-" + v.src.name
				if v.anchor != "" {
					k2 += "@if[" + v.anchor + "]"
				}
				if seen[k2] {
					continue
				}
				seen[k2] = true
				c.Fail("flow."+v.rule, k2, r.Pos(), v.why, fmt.Sprintf("operand %s evaluated/read at %s", v.src.name, posOfSrc(c, v.src)))
			}
		}
	}
	c.Sites = nRet
	c.Floor("flow functions", len(fns), 50, "Value methods, Index/GetAttr/ApplyPath, traversal steps, decode methods, helpers")
	c.Floor("flow Value methods", nValueMethods, 17, "18 hclsyntax + json + dynblock exprWrap + static exprs")
	c.Floor("flow returns", nRet, 150, "returns of boundary functions")
	c.Floor("flow sources", nSrc, 70, "108 operand sources on the pinned tree")
	c06FieldRules(c)
	c06BodyMarks(c)
	c.NotCovered("marks lost inside go-cty or inside application functions")
	c.NotCovered("marks that should exist although nothing was evaluated (zero iterations of a marked for_each)")
	c.NotCovered("the non-interference property itself: the discipline is necessary, not sufficient")
	c.Trust("go-cty v1.16.3 operations propagate the marks of their operands to their results (WithMarks, WithSameMarks, Index, GetAttr, arithmetic, convert, function.Call)")
	c06MarksAccumulate(c)
	c06ForEachMarks(c)
}

func posOfSrc(c *Ctx, s *flowSrc) string {
	if s.ins != nil {
		return c.P.Position(s.ins.Pos())
	}
	return "function entry"
}

// Rq3a: struct types with a cty.ValueMarks field propagate it when they rebuild themselves.
func c06FieldRules(c *Ctx) {
	c.Rule("Rq3 markfield: for every struct type of ext/dynblock with a cty.ValueMarks field, every composite literal of that type built inside a method of the type sets the field (from the receiver)")
	pkg := c.P.Pkg("ext/dynblock")
	if pkg == nil {
		c.CheckerFail("markfield", "ext/dynblock not loaded")
		return
	}
	type inst struct {
		named *types.Named
		field *types.Var
	}
	var insts []inst
	sc := pkg.Types.Scope()
	for _, n := range sc.Names() {
		tn, ok := sc.Lookup(n).(*types.TypeName)
		if !ok {
			continue
		}
		named, ok := tn.Type().(*types.Named)
		if !ok {
			continue
		}
		st, ok := named.Underlying().(*types.Struct)
		if !ok {
			continue
		}
		for i := 0; i < st.NumFields(); i++ {
			if isCtyMarks(st.Field(i).Type()) {
				insts = append(insts, inst{named, st.Field(i)})
			}
		}
	}
	c.Floor("markfield instances", len(insts), 3, "exprWrap.resultMarks, expandBody.valueMarks, unknownBody.valueMarks")
	n := 0
	for _, in := range insts {
		for _, fn := range c.P.pkgFuncs("ext/dynblock") {
			recv := fn.Signature.Recv()
			top := fn
			for top.Parent() != nil {
				top = top.Parent()
			}
			recv = top.Signature.Recv()
			if recv == nil || namedOf(recv.Type()) != in.named {
				continue
			}
			for _, b := range fn.Blocks {
				for _, ins := range b.Instrs {
					al, ok := ins.(*ssa.Alloc)
					if !ok || namedOf(al.Type()) != in.named || !strings.Contains(al.Comment, "complit") {
						continue
					}
					n++
					set := false
					for _, r := range *al.Referrers() {
						if fa, ok := r.(*ssa.FieldAddr); ok && fieldVarOf(fa.X.Type(), fa.Field) == in.field {
							for _, r2 := range *fa.Referrers() {
								if _, ok := r2.(*ssa.Store); ok {
									set = true
								}
							}
						}
					}
					key := fmt.Sprintf("%s:complit[%s].%s", FuncName(fn), in.named.Obj().Name(), in.field.Name())
					c.Fn(FuncName(fn))
					c.Check(set, "markfield", key, al.Pos(), "field propagated",
						fmt.Sprintf("a new %s is built inside a method of %s without setting %s: marks of the for_each value are lost for everything decoded through the new object", in.named.Obj().Name(), in.named.Obj().Name(), in.field.Name()))
				}
			}
		}
	}
	c.Floor("markfield literals", n, 1, "expandBody.PartialContent remainder")
}

// Rq3b: hcldec block specs re-apply the body's marks to every decoded child block.
func c06BodyMarks(c *Ctx) {
	c.Rule("Rq3 bodymarks: in every hcldec Spec.decode that decodes a child block body (call of decode(childBlock.Body, …)), the decoded value flows into prepareBodyVal with the same body before it is collected or returned (marks of a dynamic block's for_each reach the decoded block)")
	dec := c.P.LookupFunc("hcldec", "decode")
	prep := c.P.LookupFunc("hcldec", "prepareBodyVal")
	if dec == nil || prep == nil {
		c.CheckerFail("bodymarks", "anchor hcldec.decode / prepareBodyVal does not resolve")
		return
	}
	n := 0
	bmDone := map[*ssa.Function]bool{}
	for _, root := range c.P.pkgFuncs("hcldec") {
		if root.Name() != "decode" || root.Signature.Recv() == nil {
			continue
		}
		for _, fn := range c.P.expandedFuncs(root) {
			if bmDone[fn] {
				continue
			}
			bmDone[fn] = true
			for _, b := range fn.Blocks {
				for _, ins := range b.Instrs {
					call, ok := ins.(*ssa.Call)
					if !ok || call.Call.StaticCallee() != dec {
						continue
					}
					body := call.Call.Args[0]
					// only child block bodies (loaded from a Block's Body field)
					if !strings.HasSuffix(pathName(body), ".Body") {
						continue
					}
					n++
					name := FuncName(fn)
					c.Fn(name)
					wrapped := false
					for _, r := range *call.Referrers() {
						ex, ok := r.(*ssa.Extract)
						if !ok || ex.Index != 0 {
							continue
						}
						for _, r2 := range *ex.Referrers() {
							if c2, ok := r2.(*ssa.Call); ok && c2.Call.StaticCallee() == prep && sameCell(c2.Call.Args[1], body) {
								wrapped = true
							}
						}
					}
					c.Check(wrapped, "bodymarks", name+":call[decode(childBlock.Body)]", call.Pos(), "result passes through prepareBodyVal",
						"decoded child block value does not pass through prepareBodyVal(val, childBlock.Body): marks of a dynamic block's for_each value are dropped from the decoded block")
				}
			}
		}
	}
	c.Floor("bodymarks sites", n, 5, "BlockSpec, BlockListSpec, BlockTupleSpec, BlockSetSpec, BlockMapSpec, BlockObjectSpec")
}

// marks.accumulate: marks gathered in a loop are accumulated, never overwritten.
func c06MarksAccumulate(c *Ctx) {
	c.Rule("marks.accumulate: in hcl, hclsyntax, json, hcldec, ext/dynblock, a loop-carried variable of type cty.ValueMarks or []cty.ValueMarks that is read after the loop changes round the loop only by accumulation (append to itself, or the same map updated in place): an assignment that replaces it keeps only the marks of the last item and loses those of the earlier ones")
	n := 0
	for _, fn := range c.P.pkgFuncs("hcl", "hclsyntax", "json", "hcldec", "ext/dynblock") {
		for _, b := range fn.Blocks {
			for _, ins := range b.Instrs {
				ph, ok := ins.(*ssa.Phi)
				if !ok {
					break
				}
				t := ph.Type()
				isMarks := isNamedIn(t, "github.com/zclconf/go-cty/cty", "ValueMarks")
				if sl, ok := t.Underlying().(*types.Slice); ok && isNamedIn(sl.Elem(), "github.com/zclconf/go-cty/cty", "ValueMarks") {
					isMarks = true
				}
				if !isMarks {
					continue
				}
				var back []int
				for i, p := range b.Preds {
					if b.Dominates(p) {
						back = append(back, i)
					}
				}
				if len(back) == 0 {
					continue
				}
				// read after the loop?
				usedOutside := false
				for _, r := range *ph.Referrers() {
					if r.Block() != nil && !b.Dominates(r.Block()) {
						usedOutside = true
					}
					if _, isDbg := r.(*ssa.DebugRef); !isDbg && r.Block() != nil && r.Block() != b {
						usedOutside = true
					}
				}
				if !usedOutside {
					continue
				}
				var derives func(v ssa.Value, d int) bool
				derives = func(v ssa.Value, d int) bool {
					if v == ssa.Value(ph) {
						return true
					}
					if d > 8 {
						return false
					}
					switch x := v.(type) {
					case *ssa.Call:
						if bi, ok := x.Call.Value.(*ssa.Builtin); ok && bi.Name() == "append" {
							return derives(x.Call.Args[0], d+1)
						}
					case *ssa.Phi:
						for _, e := range x.Edges {
							if e != ssa.Value(x) && !derives(e, d+1) {
								return false
							}
						}
						return true
					case *ssa.ChangeType:
						return derives(x.X, d+1)
					}
					return false
				}
				for _, i := range back {
					n++
					c.Sites++
					c.Fn(FuncName(fn))
					c.Check(derives(ph.Edges[i], 0), "marks.accumulate", fmt.Sprintf("%s:loop[%s]", FuncName(fn), ph.Comment), ph.Pos(), "accumulated",
						"the marks variable `"+ph.Comment+"` is replaced, not extended, on a path round the loop: only the marks of the last item survive, a result that depends on an earlier marked item is returned without that mark")
				}
			}
		}
	}
	c.Floor("marks.accumulate loops", n, 2, "mark accumulators of the for/object/template evaluators")
}

// foreach.marks: what a dynamic block generates carries the marks of ITS for_each.
func c06ForEachMarks(c *Ctx) {
	c.Rule("foreach.marks: in expandBody.expandBlocks, after the marks of a dynamic block's for_each value have been peeled off (forEachVal.Unmark()), every child body made for that block — each expandChild call and each unknownBody literal in the code that Unmark dominates — is given exactly those marks (not the enclosing body's, not nil): the generated content depends on the for_each value whether or not it is known")
	fn := c.P.LookupFunc("ext/dynblock", "expandBody.expandBlocks")
	ec := c.P.LookupFunc("ext/dynblock", "expandBody.expandChild")
	if fn == nil || ec == nil {
		c.CheckerFail("foreach.marks", "anchor expandBlocks / expandChild does not resolve")
		return
	}
	c.Fn(FuncName(fn))
	// the Unmark of the for_each value
	var marks ssa.Value
	var at *ssa.BasicBlock
	for _, b := range fn.Blocks {
		for _, ins := range b.Instrs {
			ex, ok := ins.(*ssa.Extract)
			if !ok || ex.Index != 1 {
				continue
			}
			call, ok := ex.Tuple.(*ssa.Call)
			if !ok || !calleeOf(&call.Call).isCtyValueMethod("Unmark", "UnmarkDeep", "UnmarkDeepWithPaths") || len(call.Call.Args) == 0 {
				continue
			}
			for fv := range fieldTrail(call.Call.Args[0]) {
				if fv.Name() == "forEachVal" {
					marks, at = ex, b
				}
			}
		}
	}
	if marks == nil {
		c.Undecided("foreach.marks", FuncName(fn)+":unmark", fn.Pos(), "the Unmark of the for_each value was not found")
		return
	}
	n := 0
	// scan the code the Unmark dominates; a helper of the package that is handed the marks is
	// scanned whole, with its parameter standing for them
	var scan func(f *ssa.Function, marks ssa.Value, at *ssa.BasicBlock, depth int)
	scan = func(f *ssa.Function, marks ssa.Value, at *ssa.BasicBlock, depth int) {
		for _, b := range f.Blocks {
			if at != nil && b != at && !at.Dominates(b) {
				continue
			}
			for _, ins := range b.Instrs {
				switch x := ins.(type) {
				case *ssa.Call:
					if x.Call.StaticCallee() == ec && len(x.Call.Args) == 4 {
						n++
						c.Sites++
						c.Check(x.Call.Args[3] == marks, "foreach.marks", FuncName(fn)+":expandChild.marks", x.Pos(), "the for_each marks",
							"the child body of a generated block is expanded with marks other than those of this block's for_each ("+pathName(x.Call.Args[3])+"): values decoded from the generated content lose the mark of the collection that produced them")
						continue
					}
					if cal := x.Call.StaticCallee(); cal != nil && cal != ec && depth < 3 && len(cal.Blocks) > 0 && fnPkg(cal) == fnPkg(fn) {
						for i, a := range x.Call.Args {
							if a == marks && i < len(cal.Params) {
								c.Fn(FuncName(cal))
								scan(cal, cal.Params[i], nil, depth+1)
							}
						}
					}
				case *ssa.Store:
					fa, ok := x.Addr.(*ssa.FieldAddr)
					if !ok {
						continue
					}
					fv := fieldVarOf(fa.X.Type(), fa.Field)
					if fv == nil || fv.Name() != "valueMarks" {
						continue
					}
					if al, ok := fa.X.(*ssa.Alloc); !ok || !isNamed(al.Type().(*types.Pointer).Elem(), modPath+"/ext/dynblock", "unknownBody") {
						continue
					}
					n++
					c.Sites++
					c.Check(x.Val == marks, "foreach.marks", FuncName(fn)+":unknownBody.valueMarks", x.Pos(), "the for_each marks",
						"the placeholder body for an unknown for_each is given marks other than those of this block's for_each ("+pathName(x.Val)+"): with an unknown marked collection the decoded placeholder is unmarked, while the same collection once known yields marked values")
				}
			}
		}
	}
	scan(fn, marks, at, 0)
	c.Floor("foreach.marks sites", n, 3, "expandChild of the known and unknown branches, the unknownBody literal")
}
