package main

import (
	"fmt"
	"go/constant"
	"go/token"
	"go/types"
	"os"
	"sort"
	"strings"

	"golang.org/x/tools/go/ssa"
)

// E-known: "definitely known" / "definitely not null" typestate for cty values.
//
// A fixed set of cty.Value methods panics when the receiver is unknown and/or null ("value is
// unknown", "value is null", "can't use ElementIterator on unknown value", …). The explicit part
// of that set is re-derived from the cty sources on every run (methods that test
// !recv.IsKnown() / recv.IsNull() and panic on that edge, or unconditionally call such a method
// on the receiver) and compared with the frozen table; True and False panic implicitly (a type
// assertion on the result of Equals) and are listed by hand.

type knownFact int

const (
	factKnown knownFact = 1 << iota
	factNonNull
)

func (f knownFact) String() string {
	var s []string
	if f&factKnown != 0 {
		s = append(s, "known")
	}
	if f&factNonNull != 0 {
		s = append(s, "non-null")
	}
	return strings.Join(s, "+")
}

// frozen: what each method needs of its receiver not to panic.
var frozenKnownNeeds = map[string]knownFact{
	"AsString": factKnown | factNonNull, "AsBigFloat": factKnown | factNonNull,
	"LengthInt": factKnown | factNonNull, "ElementIterator": factKnown | factNonNull, "ForEachElement": factKnown | factNonNull,
	"AsValueSlice": factKnown | factNonNull, "AsValueMap": factKnown | factNonNull, "AsValueSet": factKnown | factNonNull,
	"HasElement": factNonNull,
	// implicit: val.Equals(True).v.(bool) panics for an unknown receiver; a null receiver compares unequal
	"True": factKnown, "False": factKnown,
}

var implicitKnownNeeds = map[string]bool{"True": true, "False": true}

type knownEngine struct {
	p         *Program
	needs     map[*ssa.Function]knownFact
	memo      map[knKey]int
	why       map[knKey]string
	retMemo   map[knRet]int
	depth     int
	fieldMemo map[knField]int
}

type knKey struct {
	v ssa.Value
	b *ssa.BasicBlock
	f knownFact
}

type knRet struct {
	fn  *ssa.Function
	idx int
	f   knownFact
}

func newKnownEngine(p *Program) (*knownEngine, error) {
	e := &knownEngine{p: p, needs: map[*ssa.Function]knownFact{}, memo: map[knKey]int{}, why: map[knKey]string{}, retMemo: map[knRet]int{}}
	ctyPkg := p.SSAPkgs[ctyPath]
	if ctyPkg == nil {
		return nil, fmt.Errorf("package %s not loaded", ctyPath)
	}
	valT := ctyPkg.Type("Value")
	if valT == nil {
		return nil, fmt.Errorf("cty.Value does not resolve")
	}
	ms := p.SSA.MethodSets.MethodSet(valT.Type())
	var methods []*ssa.Function
	byName := map[string]*ssa.Function{}
	for i := 0; i < ms.Len(); i++ {
		if fn := p.SSA.MethodValue(ms.At(i)); fn != nil && len(fn.Blocks) > 0 {
			methods = append(methods, fn)
			byName[fn.Name()] = fn
		}
	}
	isKnownFn, isNullFn := byName["IsKnown"], byName["IsNull"]
	if isKnownFn == nil || isNullFn == nil {
		return nil, fmt.Errorf("cty.Value.IsKnown / IsNull do not resolve")
	}
	recvIs := func(fn *ssa.Function, v ssa.Value) bool {
		if len(fn.Params) == 0 {
			return false
		}
		if v == fn.Params[0] {
			return true
		}
		if u, ok := v.(*ssa.UnOp); ok && u.Op == token.MUL {
			if al, ok := u.X.(*ssa.Alloc); ok {
				n, fromParam := 0, false
				for _, r := range *al.Referrers() {
					if st, ok := r.(*ssa.Store); ok && st.Addr == al {
						n++
						fromParam = st.Val == fn.Params[0]
					}
				}
				return n == 1 && fromParam
			}
		}
		return false
	}
	panics := func(b *ssa.BasicBlock) bool {
		for _, ins := range b.Instrs {
			if _, ok := ins.(*ssa.Panic); ok {
				return true
			}
		}
		return false
	}
	// explicit tests anywhere in the method that is not behind a type-specific early return:
	// accept tests in blocks that dominate... (kept simple: any block; the derived table is
	// compared with the frozen one, so an over- or under-approximation shows up as a mismatch)
	derived := map[*ssa.Function]knownFact{}
	for _, m := range methods {
		for _, b := range m.Blocks {
			iff, ok := lastIf(b)
			if !ok {
				continue
			}
			cond, neg := iff.Cond, false
			for {
				u, ok := cond.(*ssa.UnOp)
				if !ok || u.Op != token.NOT {
					break
				}
				cond, neg = u.X, !neg
			}
			call, ok := cond.(*ssa.Call)
			if !ok || len(call.Call.Args) == 0 || !recvIs(m, call.Call.Args[0]) {
				continue
			}
			cal := call.Call.StaticCallee()
			switch {
			case cal == isKnownFn:
				// unknown edge: false edge of IsKnown (true edge of !IsKnown)
				unk := b.Succs[1]
				if neg {
					unk = b.Succs[0]
				}
				if panics(unk) {
					derived[m] |= factKnown
				}
			case cal == isNullFn:
				nul := b.Succs[0]
				if neg {
					nul = b.Succs[1]
				}
				if panics(nul) {
					derived[m] |= factNonNull
				}
			}
		}
	}
	// transitive: a call of such a method on the receiver that is not guarded inside the method
	for changed := true; changed; {
		changed = false
		for _, m := range methods {
			for _, b := range m.Blocks {
				for _, ins := range b.Instrs {
					call, ok := ins.(*ssa.Call)
					if !ok {
						continue
					}
					cal := call.Call.StaticCallee()
					if cal == nil || derived[cal] == 0 || cal == m || len(call.Call.Args) == 0 || !recvIs(m, call.Call.Args[0]) {
						continue
					}
					if b != m.Blocks[0] && !postDominatesEntry(m, b) {
						continue
					}
					if derived[m]|derived[cal] != derived[m] {
						derived[m] |= derived[cal]
						changed = true
					}
				}
			}
		}
	}
	var mismatch []string
	for _, m := range methods {
		if !m.Object().Exported() {
			continue
		}
		want, listed := frozenKnownNeeds[m.Name()]
		if implicitKnownNeeds[m.Name()] {
			e.needs[m] = want
			continue
		}
		got := derived[m]
		if listed && got != want {
			mismatch = append(mismatch, fmt.Sprintf("%s: derived %v, frozen %v", m.Name(), got, want))
		}
		if !listed && got != 0 && knownRelevant[m.Name()] {
			mismatch = append(mismatch, fmt.Sprintf("%s: derived %v, not in the frozen table", m.Name(), got))
		}
		if listed {
			e.needs[m] = want
		}
	}
	sort.Strings(mismatch)
	if len(mismatch) > 0 {
		return nil, fmt.Errorf("cty methods that panic on unknown/null receivers changed: %s", strings.Join(mismatch, "; "))
	}
	return e, nil
}

// knownRelevant: methods whose derived requirement must be in the frozen table (the accessor
// family); other methods with explicit tests (operators, GetAttr, Index, …) return unknown values
// instead of panicking on the paths the evaluators use and are not sites of this rule.
var knownRelevant = map[string]bool{
	"AsString": true, "AsBigFloat": true, "LengthInt": true, "ElementIterator": true, "ForEachElement": true,
	"AsValueSlice": true, "AsValueMap": true, "AsValueSet": true, "HasElement": true,
}

// postDominatesEntry: every path from the entry to a return passes b (b is unconditional).
func postDominatesEntry(fn *ssa.Function, b *ssa.BasicBlock) bool {
	seen := map[*ssa.BasicBlock]bool{}
	var walk func(x *ssa.BasicBlock) bool
	walk = func(x *ssa.BasicBlock) bool {
		if x == b {
			return true
		}
		if seen[x] {
			return true
		}
		seen[x] = true
		if len(x.Succs) == 0 {
			_, isPanic := x.Instrs[len(x.Instrs)-1].(*ssa.Panic)
			return isPanic
		}
		for _, s := range x.Succs {
			if !walk(s) {
				return false
			}
		}
		return true
	}
	return walk(fn.Blocks[0])
}

var ctyKnownConstructors = map[string]knownFact{
	"StringVal": factKnown | factNonNull, "NumberVal": factKnown | factNonNull, "NumberIntVal": factKnown | factNonNull,
	"NumberUIntVal": factKnown | factNonNull, "NumberFloatVal": factKnown | factNonNull, "BoolVal": factKnown | factNonNull,
	"MustParseNumberVal": factKnown | factNonNull, "ParseNumberVal": factKnown | factNonNull,
	"ListVal": factKnown | factNonNull, "ListValEmpty": factKnown | factNonNull, "MapVal": factKnown | factNonNull, "MapValEmpty": factKnown | factNonNull,
	"TupleVal": factKnown | factNonNull, "ObjectVal": factKnown | factNonNull, "SetVal": factKnown | factNonNull, "SetValEmpty": factKnown | factNonNull,
	"CapsuleVal": factKnown | factNonNull, "NormalizeString": factKnown | factNonNull,
	"NullVal": factKnown,
}

// methods whose result has the same known-ness and null-ness as the receiver
var knownTransparent = map[string]bool{
	"Unmark": true, "UnmarkDeep": true, "UnmarkDeepWithPaths": true, "Mark": true, "WithMarks": true, "WithSameMarks": true,
	"MarkWithPaths": true,
}

// results of these cty.Value methods are never null
var ctyNeverNull = map[string]bool{
	"Add": true, "Subtract": true, "Multiply": true, "Divide": true, "Modulo": true, "Negate": true, "Absolute": true,
	"And": true, "Or": true, "Not": true, "LessThan": true, "GreaterThan": true, "LessThanOrEqualTo": true,
	"GreaterThanOrEqualTo": true, "Length": true, "Equals": true, "NotEqual": true, "HasIndex": true, "HasElement": true,
}

// isRangeBound: v is a bound returned by a cty.ValueRange method (a number).
func isRangeBound(v ssa.Value) bool {
	v = knownCanon(v)
	var call *ssa.Call
	switch x := v.(type) {
	case *ssa.Extract:
		call, _ = x.Tuple.(*ssa.Call)
	case *ssa.Call:
		call = x
	}
	if call == nil {
		return false
	}
	cal := call.Call.StaticCallee()
	return cal != nil && cal.Signature.Recv() != nil && isNamed(cal.Signature.Recv().Type(), ctyPath, "ValueRange") && strings.HasPrefix(cal.Name(), "Number")
}

// useBlock: the block at which an operand is judged: the use site when known, else the definition.
func useBlock(use, def *ssa.BasicBlock) *ssa.BasicBlock {
	if use != nil && def != nil && use.Parent() == def.Parent() {
		return use
	}
	return def
}

// canon strips mark bookkeeping, type changes and single-store locals.
func knownCanon(v ssa.Value) ssa.Value {
	for i := 0; i < 12; i++ {
		switch x := v.(type) {
		case *ssa.Extract:
			if call, ok := x.Tuple.(*ssa.Call); ok && x.Index == 0 {
				if cal := call.Call.StaticCallee(); cal != nil && isCtyValueMethod(cal) && knownTransparent[cal.Name()] {
					v = call.Call.Args[0]
					continue
				}
			}
		case *ssa.Call:
			if cal := x.Call.StaticCallee(); cal != nil && isCtyValueMethod(cal) && knownTransparent[cal.Name()] {
				v = x.Call.Args[0]
				continue
			}
		case *ssa.ChangeType:
			v = x.X
			continue
		case *ssa.UnOp:
			if x.Op == token.MUL {
				if al, ok := x.X.(*ssa.Alloc); ok {
					var st *ssa.Store
					n := 0
					escapes := false
					for _, r := range *al.Referrers() {
						switch y := r.(type) {
						case *ssa.Store:
							if y.Addr == al {
								n++
								st = y
							} else {
								escapes = true
							}
						case *ssa.UnOp, *ssa.DebugRef:
						default:
							escapes = true
						}
					}
					if n == 1 && !escapes {
						v = st.Val
						continue
					}
				}
			}
		}
		break
	}
	return v
}

func sameKnownClass(a, b ssa.Value) bool {
	ca, cb := knownCanon(a), knownCanon(b)
	return ca == cb || sameValue(ca, cb) || sameCell(ca, cb)
}

// Has decides whether v provably has fact f (exactly one bit) when used in block b.
func (e *knownEngine) Has(v ssa.Value, b *ssa.BasicBlock, f knownFact) (bool, string) {
	k := knKey{v, b, f}
	switch e.memo[k] {
	case 1:
		return true, "cycle (coinductive)"
	case 2:
		return true, e.why[k]
	case 3:
		return false, e.why[k]
	}
	e.memo[k] = 1
	e.depth++
	ok, why := e.decide(v, b, f)
	e.depth--
	if e.depth == 0 {
		if ok {
			e.memo[k] = 2
		} else {
			e.memo[k] = 3
		}
		e.why[k] = why
	} else {
		delete(e.memo, k)
	}
	return ok, why
}

// guarded: a dominating edge establishes f for a value of the same class as v.
func (e *knownEngine) guarded(v ssa.Value, b *ssa.BasicBlock, f knownFact) (bool, string) {
	for _, ce := range ctlEdges(b) {
		onTrue := ce.onTrue
		cond, neg := ce.iff.Cond, false
		for {
			u, ok := cond.(*ssa.UnOp)
			if !ok || u.Op != token.NOT {
				break
			}
			cond, neg = u.X, !neg
		}
		call, ok := cond.(*ssa.Call)
		if !ok || len(call.Call.Args) == 0 {
			continue
		}
		cal := call.Call.StaticCallee()
		if cal == nil || !isCtyValueMethod(cal) || !sameKnownClass(call.Call.Args[0], v) {
			continue
		}
		holds := onTrue != neg // the call's result is true on this edge
		switch cal.Name() {
		case "IsKnown", "IsWhollyKnown":
			if f == factKnown && holds {
				return true, "under " + cal.Name() + "()"
			}
		case "IsNull":
			if f == factNonNull && !holds {
				return true, "under !IsNull()"
			}
		}
	}
	return false, ""
}

func (e *knownEngine) decide(v ssa.Value, b *ssa.BasicBlock, f knownFact) (bool, string) {
	if b != nil {
		if ok, why := e.guarded(v, b, f); ok {
			return true, why
		}
		if ok, why := e.guardedByPaths(v, b, f); ok {
			return true, why
		}
	}
	switch x := v.(type) {
	case *ssa.Extract:
		if call, ok := x.Tuple.(*ssa.Call); ok {
			cal := call.Call.StaticCallee()
			// values are immutable: a fact about the operand established anywhere before the use
			// (block b) carries over, so the operand is judged at b, not at the call
			if cal != nil && isCtyValueMethod(cal) && knownTransparent[cal.Name()] && x.Index == 0 {
				return e.Has(call.Call.Args[0], useBlock(b, call.Block()), f)
			}
			if cal != nil && x.Index == 0 && fnPkg(cal) != nil && fnPkg(cal).Path() == ctyPath+"/convert" && cal.Name() == "Convert" {
				// a conversion keeps known-ness and null-ness of its operand (on the err == nil path)
				return e.Has(call.Call.Args[0], useBlock(b, call.Block()), f)
			}
			if cal != nil && isCtyPkgFunc(cal, "ParseNumberVal") && x.Index == 0 {
				return true, "cty.ParseNumberVal"
			}
			if cal != nil && cal.Name() == "Element" && cal.Signature.Recv() != nil && x.Index == 0 {
				// key of an element iterator: always a known, non-null string or number
				if rt := namedOf(cal.Signature.Recv().Type()); rt != nil && rt.Obj().Pkg() != nil && rt.Obj().Pkg().Path() == ctyPath && rt.Obj().Name() == "ElementIterator" {
					return true, "key yielded by an ElementIterator"
				}
			}
			if cal != nil && inModule(cal) && e.returnsFact(cal, x.Index, f) {
				return true, "result of " + FuncName(cal) + " (all returns " + f.String() + ")"
			}
		}
		if call, ok := x.Tuple.(*ssa.Call); ok && call.Call.IsInvoke() && call.Call.Method.Name() == "Element" && x.Index == 0 {
			return true, "key yielded by an ElementIterator"
		}
		return false, "tuple element of unknown origin"
	case *ssa.Call:
		cal := x.Call.StaticCallee()
		if cal == nil {
			return false, "result of a dynamic call"
		}
		if pk := fnPkg(cal); pk != nil && pk.Path() == ctyPath && cal.Signature.Recv() == nil {
			if ctyKnownConstructors[cal.Name()]&f != 0 {
				return true, "fresh cty." + cal.Name()
			}
			return false, "cty." + cal.Name() + " may be " + negFact(f)
		}
		if isCtyValueMethod(cal) && knownTransparent[cal.Name()] {
			return e.Has(x.Call.Args[0], useBlock(b, x.Block()), f)
		}
		if isCtyValueMethod(cal) && ctyNeverNull[cal.Name()] && f == factNonNull {
			return true, "result of cty operation " + cal.Name() + " is never null"
		}
		if isCtyValueMethod(cal) && (ctyPrimitiveOps[cal.Name()] || cal.Name() == "HasIndex") && f == factKnown {
			// known operands give a known result (primitive operators; HasIndex of a known collection and key)
			for _, a := range x.Call.Args {
				if isCtyValue(a.Type()) {
					if ok, why := e.Has(a, useBlock(b, x.Block()), factKnown); !ok {
						return false, cal.Name() + " of an operand that may be unknown: " + why
					}
				}
			}
			return true, cal.Name() + " of known operands"
		}
		if isCtyValueMethod(cal) && (cal.Name() == "Equals" || cal.Name() == "NotEqual") && f == factKnown {
			// known for known *primitive* operands; only bounds of a ValueRange are recognised as such
			for _, a := range x.Call.Args {
				if !isRangeBound(a) {
					return false, cal.Name() + " of operands that are not known to be primitive"
				}
				if ok, why := e.Has(a, useBlock(b, x.Block()), factKnown); !ok {
					return false, cal.Name() + " of an operand that may be unknown: " + why
				}
			}
			return true, cal.Name() + " of known number bounds"
		}
		if inModule(cal) && e.returnsFact(cal, 0, f) {
			return true, "result of " + FuncName(cal) + " (all returns " + f.String() + ")"
		}
		return false, "result of " + FuncName(cal)
	case *ssa.UnOp:
		if x.Op != token.MUL {
			return false, "unary op"
		}
		switch src := x.X.(type) {
		case *ssa.Global:
			if src.Pkg != nil && src.Pkg.Pkg.Path() == ctyPath {
				switch src.Name() {
				case "True", "False", "Zero", "EmptyObjectVal", "EmptyTupleVal", "PositiveInfinity", "NegativeInfinity":
					return true, "cty." + src.Name() + " constant"
				case "NilVal":
					return false, "cty.NilVal"
				case "DynamicVal":
					return false, "cty.DynamicVal is unknown"
				}
			}
			return false, "package variable " + src.Name()
		case *ssa.Alloc:
			return e.cellHas(src, f, nil)
		case *ssa.FieldAddr:
			if fv := fieldVarOf(src.X.Type(), src.Field); fv != nil {
				return e.fieldHas(fv, f)
			}
		}
		return false, "load through pointer"
	case *ssa.Phi:
		for i, ed := range x.Edges {
			if ok, why := e.Has(ed, x.Block().Preds[i], f); !ok {
				return false, "phi edge: " + why
			}
		}
		return true, "phi"
	case *ssa.Parameter:
		return e.paramHas(x, f)
	case *ssa.ChangeType:
		return e.Has(x.X, b, f)
	}
	return false, fmt.Sprintf("%T", v)
}

func negFact(f knownFact) string {
	if f == factKnown {
		return "unknown"
	}
	return "null"
}

// cellHas: every store into the local cell stores a value with the fact (at the store).
func (e *knownEngine) cellHas(a *ssa.Alloc, f knownFact, seen map[ssa.Value]bool) (bool, string) {
	if seen == nil {
		seen = map[ssa.Value]bool{}
	}
	if seen[a] {
		return true, ""
	}
	seen[a] = true
	stores := 0
	for _, r := range *a.Referrers() {
		switch x := r.(type) {
		case *ssa.Store:
			if x.Addr != ssa.Value(a) {
				return false, "address of the local is stored"
			}
			stores++
			if ok, why := e.Has(x.Val, x.Block(), f); !ok {
				return false, "local may hold a value that is " + negFact(f) + ": " + why
			}
		case *ssa.UnOp, *ssa.DebugRef:
		default:
			return false, fmt.Sprintf("local escapes (%T)", r)
		}
	}
	if stores == 0 {
		return false, "zero-valued local (cty.NilVal)"
	}
	return true, "every store into the local is " + f.String()
}

// fieldHas: an unexported struct field of the module holds a value with the fact whenever it is
// read: every store into it (module-wide) stores such a value, every composite literal of the
// owning struct sets it, and the struct is never stored as a whole.
func (e *knownEngine) fieldHas(fv *types.Var, f knownFact) (bool, string) {
	if fv.Exported() || fv.Pkg() == nil || !strings.HasPrefix(fv.Pkg().Path(), modPath) {
		return false, "field " + fv.Name() + " can be set from outside the module"
	}
	k := knField{fv, f}
	switch e.fieldMemo[k] {
	case 1, 2:
		return true, "field " + fv.Name() + ": every store is " + f.String()
	case 3:
		return false, "field " + fv.Name() + " may hold a value that is " + negFact(f)
	}
	if e.fieldMemo == nil {
		e.fieldMemo = map[knField]int{}
	}
	e.fieldMemo[k] = 1
	ok, stores := true, 0
	for _, fn := range e.p.pkgFuncs() {
		if fnPkg(fn) == nil || fnPkg(fn).Path() != fv.Pkg().Path() {
			continue
		}
		for _, b := range fn.Blocks {
			for _, ins := range b.Instrs {
				switch x := ins.(type) {
				case *ssa.Store:
					if fa, isFA := x.Addr.(*ssa.FieldAddr); isFA && fieldVarOf(fa.X.Type(), fa.Field) == fv {
						stores++
						if h, _ := e.Has(x.Val, b, f); !h {
							ok = false
						}
					} else if st, isStruct := x.Val.Type().Underlying().(*types.Struct); isStruct && structHasField(st, fv) {
						ok = false // whole-struct store
					}
				case *ssa.Alloc:
					pt, _ := x.Type().(*types.Pointer)
					if pt == nil {
						continue
					}
					if st, isStruct := pt.Elem().Underlying().(*types.Struct); isStruct && structHasField(st, fv) {
						set := false
						for _, r := range *x.Referrers() {
							if fa, isFA := r.(*ssa.FieldAddr); isFA && fieldVarOf(fa.X.Type(), fa.Field) == fv {
								for _, r2 := range *fa.Referrers() {
									if s2, isSt := r2.(*ssa.Store); isSt && s2.Addr == ssa.Value(fa) {
										set = true
									}
								}
							}
						}
						if !set {
							ok = false // an instance whose field keeps the zero value
						}
					}
				}
			}
		}
	}
	if stores == 0 {
		ok = false
	}
	if ok {
		e.fieldMemo[k] = 2
		return true, "field " + fv.Name() + ": every store is " + f.String()
	}
	e.fieldMemo[k] = 3
	return false, "field " + fv.Name() + " may hold a value that is " + negFact(f)
}

type knField struct {
	fv *types.Var
	f  knownFact
}

func structHasField(st *types.Struct, fv *types.Var) bool {
	for i := 0; i < st.NumFields(); i++ {
		if st.Field(i) == fv {
			return true
		}
	}
	return false
}

func (e *knownEngine) paramHas(par *ssa.Parameter, f knownFact) (bool, string) {
	fn := par.Parent()
	idx := -1
	for i, p := range fn.Params {
		if p == par {
			idx = i
		}
	}
	if idx < 0 {
		return false, "parameter"
	}
	if fn.Parent() == nil {
		if obj := fn.Object(); obj == nil || obj.Exported() {
			return false, "parameter of an exported function"
		}
		if fn.Signature.Recv() != nil {
			if named := namedOf(fn.Signature.Recv().Type()); named != nil && named.Obj().Exported() {
				return false, "parameter of a method of an exported type"
			}
		}
	}
	node := e.p.CallGraph().Nodes[fn]
	if node == nil || len(node.In) == 0 {
		return false, "parameter of a function without known callers"
	}
	for _, in := range node.In {
		site := in.Site
		if site == nil {
			return false, "synthetic caller"
		}
		args := site.Common().Args
		ai := idx
		if site.Common().IsInvoke() {
			ai = idx - 1
			if ai < 0 {
				return false, "receiver"
			}
		}
		if ai >= len(args) {
			return false, "argument list mismatch"
		}
		if ok, why := e.Has(args[ai], site.Block(), f); !ok {
			return false, fmt.Sprintf("caller %s passes a value that may be %s (%s)", FuncName(in.Caller.Func), negFact(f), why)
		}
	}
	return true, fmt.Sprintf("parameter: all %d call sites pass %s values", len(node.In), f)
}

func (e *knownEngine) returnsFact(fn *ssa.Function, idx int, f knownFact) bool {
	k := knRet{fn, idx, f}
	switch e.retMemo[k] {
	case 1, 2:
		return true
	case 3:
		return false
	}
	e.retMemo[k] = 1
	ok := len(fn.Blocks) > 0
	n := 0
	for _, b := range fn.Blocks {
		if !ok {
			break
		}
		if ret, isRet := b.Instrs[len(b.Instrs)-1].(*ssa.Return); isRet {
			if len(ret.Results) <= idx || !isCtyValue(ret.Results[idx].Type()) {
				ok = false
				break
			}
			if isErrorReturn(ret) {
				continue // callers test the error before using the value
			}
			n++
			if h, _ := e.Has(lookThrough(ret.Results[idx]), b, f); !h {
				ok = false
			}
		}
	}
	if n == 0 {
		ok = false
	}
	if ok {
		e.retMemo[k] = 2
	} else {
		e.retMemo[k] = 3
	}
	return ok
}

type knownSite struct {
	fn     *ssa.Function
	pos    token.Pos
	method string
	need   knownFact
	recv   ssa.Value
	ok     bool
	why    string
}

// Sites enumerates every call of an unknown/null-panicking cty method in fns.
func (e *knownEngine) Sites(fns []*ssa.Function) []knownSite {
	var out []knownSite
	for _, fn := range fns {
		for _, b := range fn.Blocks {
			for _, ins := range b.Instrs {
				var cc *ssa.CallCommon
				switch x := ins.(type) {
				case *ssa.Call:
					cc = &x.Call
				case *ssa.Defer:
					cc = &x.Call
				case *ssa.Go:
					cc = &x.Call
				}
				if cc == nil {
					continue
				}
				cal := cc.StaticCallee()
				need := e.needs[cal]
				if cal == nil || need == 0 {
					continue
				}
				recv := cc.Args[0]
				ok, why := true, ""
				var whys []string
				for _, f := range []knownFact{factKnown, factNonNull} {
					if need&f == 0 {
						continue
					}
					h, w := e.Has(recv, b, f)
					if !h {
						ok = false
						whys = append(whys, "not provably "+f.String()+": "+w)
					} else {
						whys = append(whys, f.String()+": "+w)
					}
				}
				why = strings.Join(whys, "; ")
				out = append(out, knownSite{fn, ins.Pos(), cal.Name(), need, recv, ok, why})
			}
		}
	}
	return out
}

// ---- predicate abstraction over the guard tests of one function ------------------------------
//
// Atoms are the tests IsKnown(x) / IsWhollyKnown(x) / IsNull(x) that the function branches on
// (x up to Unmark/WithMarks/single-store locals; the methods are pure and values immutable, so a
// test has one outcome per dynamic instance of x). The state at a block is the set of atom
// valuations with which it can be reached; a branch on an atom filters, joins unite, and an atom
// is forgotten where its value is (re)defined. This decides what dominance cannot: correlated
// conditions such as `case !a.IsKnown() && !b.IsKnown(): return …; case !a.IsKnown() && b.False()`.

type knAtom struct {
	rep  ssa.Value
	kind string // "IsKnown", "IsWhollyKnown", "IsNull"
}

type knAbs struct {
	atoms []knAtom
	state map[*ssa.BasicBlock][]uint64 // bitset over 2^n valuations
	n     int
}

// edgeState: the valuations with which the edge p -> succ can be taken: state[p] filtered by p's
// own test when that test is an atom.
func (a *knAbs) edgeState(p, succ *ssa.BasicBlock) []uint64 {
	st := a.state[p]
	if st == nil || a.n == 0 {
		return st
	}
	iff, ok := lastIf(p)
	if !ok || len(p.Succs) != 2 || p.Succs[0] == p.Succs[1] {
		return st
	}
	recv, kind, neg, ok := condAtom(iff.Cond)
	if !ok {
		return st
	}
	ai := a.atomOf(recv, kind)
	if ai < 0 {
		return st
	}
	val := (p.Succs[0] == succ) != neg
	out := make([]uint64, len(st))
	for v := 0; v < 1<<uint(a.n); v++ {
		if st[v/64]&(1<<uint(v%64)) == 0 {
			continue
		}
		if (v&(1<<uint(ai)) != 0) == val {
			out[v/64] |= 1 << uint(v%64)
		}
	}
	return out
}

func (a *knAbs) atomOf(v ssa.Value, kind string) int {
	for i, at := range a.atoms {
		if at.kind == kind && sameKnownClass(at.rep, v) {
			return i
		}
	}
	return -1
}

// stripBool removes negations and comparisons with boolean constants: the inner condition and
// whether its sense is inverted.
func stripBool(cond ssa.Value) (ssa.Value, bool) {
	neg := false
	for i := 0; i < 8; i++ {
		if u, ok := cond.(*ssa.UnOp); ok && u.Op == token.NOT {
			cond, neg = u.X, !neg
			continue
		}
		if bo, ok := cond.(*ssa.BinOp); ok && (bo.Op == token.EQL || bo.Op == token.NEQ) {
			var other ssa.Value
			var cn *ssa.Const
			if c, ok := bo.Y.(*ssa.Const); ok {
				other, cn = bo.X, c
			} else if c, ok := bo.X.(*ssa.Const); ok {
				other, cn = bo.Y, c
			}
			if cn != nil && cn.Value != nil && cn.Value.Kind() == constant.Bool {
				same := constant.BoolVal(cn.Value) == (bo.Op == token.EQL) // x == true, x != false
				cond = other
				if !same {
					neg = !neg
				}
				continue
			}
		}
		break
	}
	return cond, neg
}

func condAtom(cond ssa.Value) (recv ssa.Value, kind string, neg bool, ok bool) {
	cond, neg = stripBool(cond)
	// x.Type() == cty.DynamicPseudoType: the type of x is not known yet ("IsDyn")
	if bo, isBin := cond.(*ssa.BinOp); isBin && (bo.Op == token.EQL || bo.Op == token.NEQ) {
		for _, pr := range [][2]ssa.Value{{bo.X, bo.Y}, {bo.Y, bo.X}} {
			ld, isLd := pr[1].(*ssa.UnOp)
			if !isLd || ld.Op != token.MUL {
				continue
			}
			g, isG := ld.X.(*ssa.Global)
			if !isG || g.Pkg == nil || g.Pkg.Pkg.Path() != ctyPath || g.Name() != "DynamicPseudoType" {
				continue
			}
			tv := pr[0]
			// a local that holds x.Type(): the store that reaches this load
			if l2, ok := tv.(*ssa.UnOp); ok && l2.Op == token.MUL {
				if al, ok := l2.X.(*ssa.Alloc); ok {
					if st := reachingStore(al, l2); st != nil {
						tv = st.Val
					}
				}
			}
			if call, isCall := tv.(*ssa.Call); isCall {
				if cal := call.Call.StaticCallee(); cal != nil && isCtyValueMethod(cal) && cal.Name() == "Type" && len(call.Call.Args) == 1 {
					if bo.Op == token.NEQ {
						neg = !neg
					}
					return call.Call.Args[0], "IsDyn", neg, true
				}
			}
		}
	}
	// x.Type().Equals(cty.DynamicPseudoType)
	if eq, isCall := cond.(*ssa.Call); isCall && len(eq.Call.Args) == 2 {
		if cal := eq.Call.StaticCallee(); cal != nil && cal.Name() == "Equals" && cal.Signature.Recv() != nil && isNamed(cal.Signature.Recv().Type(), ctyPath, "Type") {
			for _, pr := range [][2]ssa.Value{{eq.Call.Args[0], eq.Call.Args[1]}, {eq.Call.Args[1], eq.Call.Args[0]}} {
				ld, isLd := pr[1].(*ssa.UnOp)
				if !isLd {
					continue
				}
				if g, isG := ld.X.(*ssa.Global); !isG || g.Name() != "DynamicPseudoType" {
					continue
				}
				if call, isCall := pr[0].(*ssa.Call); isCall {
					if c2 := call.Call.StaticCallee(); c2 != nil && isCtyValueMethod(c2) && c2.Name() == "Type" && len(call.Call.Args) == 1 {
						return call.Call.Args[0], "IsDyn", neg, true
					}
				}
			}
		}
	}
	call, isCall := cond.(*ssa.Call)
	if !isCall || len(call.Call.Args) == 0 {
		return nil, "", false, false
	}
	cal := call.Call.StaticCallee()
	if cal == nil || !isCtyValueMethod(cal) {
		return nil, "", false, false
	}
	switch cal.Name() {
	case "IsKnown", "IsWhollyKnown", "IsNull":
		return call.Call.Args[0], cal.Name(), neg, true
	}
	return nil, "", false, false
}

const knMaxAtoms = 12

func (e *knownEngine) abstraction(fn *ssa.Function, focus ssa.Value) *knAbs {
	a := &knAbs{state: map[*ssa.BasicBlock][]uint64{}}
	// atoms about the focus value first, then the others in order of appearance
	for pass := 0; pass < 2; pass++ {
		for _, b := range fn.Blocks {
			iff, ok := lastIf(b)
			if !ok {
				continue
			}
			recv, kind, _, ok := condAtom(iff.Cond)
			if !ok {
				continue
			}
			about := sameKnownClass(recv, focus)
			if (pass == 0) != about {
				continue
			}
			if a.atomOf(recv, kind) < 0 && len(a.atoms) < knMaxAtoms {
				a.atoms = append(a.atoms, knAtom{knownCanon(recv), kind})
			}
		}
	}
	a.n = len(a.atoms)
	if a.n == 0 {
		return a
	}
	words := ((1 << uint(a.n)) + 63) / 64
	full := make([]uint64, words)
	for v := 0; v < 1<<uint(a.n); v++ {
		full[v/64] |= 1 << uint(v%64)
	}
	// atoms (re)defined in a block are forgotten on entry to it
	forget := map[*ssa.BasicBlock][]int{}
	for i, at := range a.atoms {
		if ins, ok := at.rep.(ssa.Instruction); ok && ins.Block() != nil && ins.Block().Parent() == fn {
			forget[ins.Block()] = append(forget[ins.Block()], i)
		}
	}
	widen := func(st []uint64, atoms []int) []uint64 {
		if len(atoms) == 0 {
			return st
		}
		out := make([]uint64, len(st))
		copy(out, st)
		for _, ai := range atoms {
			bit := 1 << uint(ai)
			for v := 0; v < 1<<uint(a.n); v++ {
				if out[v/64]&(1<<uint(v%64)) != 0 {
					w := v ^ bit
					out[w/64] |= 1 << uint(w%64)
				}
			}
		}
		return out
	}
	filter := func(st []uint64, ai int, val bool) []uint64 {
		out := make([]uint64, len(st))
		for v := 0; v < 1<<uint(a.n); v++ {
			if st[v/64]&(1<<uint(v%64)) == 0 {
				continue
			}
			if (v&(1<<uint(ai)) != 0) == val {
				out[v/64] |= 1 << uint(v%64)
			}
		}
		return out
	}
	a.state[fn.Blocks[0]] = widen(full, nil)
	add := func(su *ssa.BasicBlock, out []uint64) bool {
		out = widen(out, forget[su])
		cur := a.state[su]
		ch := false
		if cur == nil {
			cur = make([]uint64, words)
			a.state[su] = cur
			ch = true
		}
		for w := range out {
			if out[w]&^cur[w] != 0 {
				cur[w] |= out[w]
				ch = true
			}
		}
		return ch
	}
	// split a state by the truth of a boolean SSA value: (states where it is true, where it is false)
	split := func(st []uint64, cond ssa.Value) (t, f []uint64) {
		if cn, ok := cond.(*ssa.Const); ok && cn.Value != nil {
			empty := make([]uint64, words)
			if cn.Value.String() == "true" {
				return st, empty
			}
			return empty, st
		}
		if recv, kind, neg, ok := condAtom(cond); ok {
			if ai := a.atomOf(recv, kind); ai >= 0 {
				t, f = filter(st, ai, true), filter(st, ai, false)
				if neg {
					t, f = f, t
				}
				return t, f
			}
		}
		return st, st
	}
	for changed := true; changed; {
		changed = false
		for _, b := range fn.Blocks {
			in := a.state[b]
			if in == nil {
				continue
			}
			if p, _ := phiIfRaw(b); p != nil {
				continue // successors are fed by the threaded edges below
			}
			var tState, fState []uint64
			if iff, ok := lastIf(b); ok && b.Succs[0] != b.Succs[1] {
				tState, fState = split(in, iff.Cond)
			}
			for si, su := range b.Succs {
				out := in
				if tState != nil {
					if si == 0 {
						out = tState
					} else {
						out = fState
					}
				}
				if add(su, out) {
					changed = true
				}
				// thread through a phi-conditioned successor
				if phi, neg := phiIfRaw(su); phi != nil {
					for pi, p := range su.Preds {
						if p != b {
							continue
						}
						t, f := split(out, phi.Edges[pi])
						if neg {
							t, f = f, t
						}
						if add(su.Succs[0], t) {
							changed = true
						}
						if add(su.Succs[1], f) {
							changed = true
						}
					}
				}
			}
		}
	}
	return a
}

// phiIfRaw: b ends in an If on (a negation of) a phi defined in b.
func phiIfRaw(b *ssa.BasicBlock) (*ssa.Phi, bool) {
	iff, ok := lastIf(b)
	if !ok || len(b.Succs) != 2 || b.Succs[0] == b.Succs[1] {
		return nil, false
	}
	cond, neg := iff.Cond, false
	for {
		u, isU := cond.(*ssa.UnOp)
		if !isU || u.Op != token.NOT {
			break
		}
		cond, neg = u.X, !neg
	}
	phi, ok := cond.(*ssa.Phi)
	if !ok || phi.Block() != b {
		return nil, false
	}
	return phi, neg
}

// guardedByPaths: every atom valuation with which b can be reached makes f hold for v.
func (e *knownEngine) guardedByPaths(v ssa.Value, b *ssa.BasicBlock, f knownFact) (bool, string) {
	fn := b.Parent()
	a := e.abstraction(fn, v)
	if a.n == 0 {
		return false, ""
	}
	st := a.state[b]
	if os.Getenv("HCLCHECK_DEBUG_KNOWN") != "" && strings.Contains(FuncName(fn), os.Getenv("HCLCHECK_DEBUG_KNOWN")) {
		fmt.Printf("known dbg %s block %d atoms=%d st=%v v=%s\n", FuncName(fn), b.Index, a.n, st, v.Name())
		for i, at := range a.atoms {
			fmt.Printf("   atom %d %s(%s)\n", i, at.kind, at.rep.Name())
		}
	}
	if st == nil {
		return false, ""
	}
	var pos, neg []int // atoms whose truth (pos) / falsity (neg) establishes f
	for i, at := range a.atoms {
		if !sameKnownClass(at.rep, v) {
			continue
		}
		switch {
		case f == factKnown && (at.kind == "IsKnown" || at.kind == "IsWhollyKnown"):
			pos = append(pos, i)
		case f == factNonNull && at.kind == "IsNull":
			neg = append(neg, i)
		}
	}
	if len(pos)+len(neg) == 0 {
		return false, ""
	}
	any := false
	for val := 0; val < 1<<uint(a.n); val++ {
		if st[val/64]&(1<<uint(val%64)) == 0 {
			continue
		}
		any = true
		ok := false
		for _, i := range pos {
			if val&(1<<uint(i)) != 0 {
				ok = true
			}
		}
		for _, i := range neg {
			if val&(1<<uint(i)) == 0 {
				ok = true
			}
		}
		if !ok {
			return false, ""
		}
	}
	if !any {
		return true, "unreachable under the tests made so far"
	}
	if f == factKnown {
		return true, "IsKnown() holds on every path that reaches here"
	}
	return true, "IsNull() is false on every path that reaches here"
}

// reachingStore: the one store into the local cell that can reach the load: it dominates the load
// and the load cannot be reached from any other store to the cell.
func reachingStore(al *ssa.Alloc, ld *ssa.UnOp) *ssa.Store {
	var cands []*ssa.Store
	for _, st := range storesInto(al) {
		if st.Addr != ssa.Value(al) {
			return nil
		}
		sb, lb := st.Block(), ld.Block()
		if sb == lb {
			before := false
			for _, ins := range sb.Instrs {
				if ins == ssa.Instruction(st) {
					before = true
				}
				if ins == ssa.Instruction(ld) {
					break
				}
			}
			if before {
				cands = append(cands, st)
				continue
			}
		}
		if sb != lb && sb.Dominates(lb) {
			cands = append(cands, st)
			continue
		}
		// a store elsewhere: must not reach the load
		if reachFrom(sb.Parent(), sb)[lb] {
			return nil
		}
	}
	if len(cands) == 1 {
		return cands[0]
	}
	return nil
}
