package main

import (
	"fmt"
	"go/constant"
	"go/token"
	"go/types"

	"golang.org/x/tools/go/ssa"
)

// C03 — native and JSON syntaxes denote the same configuration.
//
// The equality of decoded values is a relation between the results of two algorithms and is not
// a code shape (DESIGN §5). What IS a shape is the agreement of the two Body implementations on
// which schema violations they report and on the label arity of the blocks they hand out: each
// rule below is a necessary condition of "a schema violation in one is a schema violation in the
// other" / "the same block sequence with the same labels".

func init() { register("C03", checkC03) }

const jsonPath = modPath + "/json"

func checkC03(c *Ctx) {
	nat := c.P.LookupFunc("hclsyntax", "Body.PartialContent")
	jpc := c.P.LookupFunc("json", "body.PartialContent")
	jco := c.P.LookupFunc("json", "body.Content")
	jja := c.P.LookupFunc("json", "body.JustAttributes")
	jub := c.P.LookupFunc("json", "body.unpackBlock")
	jcd := c.P.LookupFunc("json", "body.collectDeepAttrs")
	if nat == nil || jpc == nil || jco == nil || jja == nil || jub == nil || jcd == nil {
		c.CheckerFail("anchors", "hclsyntax.Body.PartialContent / json.body.{PartialContent,Content,JustAttributes,unpackBlock,collectDeepAttrs} do not all resolve")
		return
	}
	for _, f := range []*ssa.Function{nat, jpc, jco, jja, jub, jcd} {
		c.Fn(FuncName(f))
	}
	c.Rule("S1 required.reported (sibling rule, hclsyntax.Body.PartialContent and json.body.PartialContent): each reads AttributeSchema.Required of the schema's attributes (itself or through a helper of its package) and, on the Required edge of every branch on it, reaches the construction of an error diagnostic; no error diagnostic is built on the not-Required edge alone")
	c03Required(c, nat)
	c03Required(c, jpc)
	if c.Thorough() {
		// the same sibling rule for the body that merges several files (both syntaxes are merged by it)
		if mc := c.P.LookupFunc("", "mergedBodies.mergedContent"); mc != nil {
			c.Fn(FuncName(mc))
			c03Required(c, mc)
		} else {
			c.CheckerFail("anchors", "hcl.mergedBodies.mergedContent does not resolve")
		}
	}
	c.Rule("S2 dup.reported (json.body.PartialContent, JustAttributes; the native counterpart is the parser rule C02 dup.reject): an attribute is stored into the result map only on the not-present edge of a lookup of the same key in the same map, and the present edge builds an error diagnostic and does not store")
	c03DupReported(c, jpc, jja)
	c.Rule("S3 labels.exact: (native) the block that hclsyntax.Body.PartialContent appends to its result is appended only on paths where the comparisons of len(block.Labels) with len(blockS.LabelNames) have established equality; (JSON) body.unpackBlock constructs a block only on the edge where no label name is left (len(labelsLeft) > 0 is false), every recursive call hands on labelsLeft[1:] together with a used-label list that is one longer, and the Labels of the constructed block are a copy of that list — both syntaxes only hand out blocks with exactly as many labels as the schema names")
	c03LabelsNative(c, nat)
	c03LabelsJSON(c, jub)
	c.Rule("S4 comment.skipped: in json.body.Content every error diagnostic built inside the loop over the collected properties, and in json.body.JustAttributes every store into the returned attribute map, is dominated by the name != \"//\" edge of a comparison of the property name with the constant \"//\" (comment properties are neither extraneous nor attributes)")
	c03Comment(c, jco, jja)
	c.Rule("S5 forms: body.collectDeepAttrs and body.unpackBlock each test their node against both *objectVal and *arrayVal (object and array-of-objects bodies, single and repeated block bodies); every other node type reaches an error diagnostic or is the null node")
	c03Forms(c, jcd, jub)
	c.NotCovered("equality of the decoded values under every hcldec specification; the order of blocks across JSON properties; expression-level agreement (literal mapping is decided under C13 literal, accessor tables under C20 json.accessors)")
	c.NotCovered("hidden-set discipline and the leftover report of both implementations are decided under C04 (hidden.*, leftover.source, content.shared)")
	c.Trust("error diagnostics are recognised as hcl.Diagnostic literals with Severity DiagError, built directly or by a helper every return of which is one")
}

// allocsErrorDiag: block b builds an error diagnostic (directly, or calls a helper that always records one).
func blockBuildsErrorDiag(b *ssa.BasicBlock) bool {
	for _, ins := range b.Instrs {
		if al, ok := ins.(*ssa.Alloc); ok && isErrorDiagPtr(al) {
			return true
		}
		if call, ok := ins.(*ssa.Call); ok {
			if cal := staticCallee(&call.Call); cal != nil && inModule(cal) {
				if alwaysRecordsError(cal) {
					return true
				}
				if v := ssa.Value(call); isDiagnosticsType(v.Type()) && alwaysErrResult(cal, 0, 0) {
					return true
				}
				if call.Type() != nil {
					if pt, ok := call.Type().(*types.Pointer); ok && isNamed(pt.Elem(), modPath, "Diagnostic") && isErrorDiagPtr(call) {
						return true
					}
				}
			}
		}
	}
	return false
}

// requiredLoads: loads of AttributeSchema.Required in fn.
func requiredLoads(fn *ssa.Function) []ssa.Value {
	var out []ssa.Value
	for _, b := range fn.Blocks {
		for _, ins := range b.Instrs {
			switch x := ins.(type) {
			case *ssa.Field:
				if fv := fieldVarOf(x.X.Type(), x.Field); fv != nil && fv.Name() == "Required" && isNamed(x.X.Type(), modPath, "AttributeSchema") {
					out = append(out, x)
				}
			case *ssa.FieldAddr:
				if fv := fieldVarOf(x.X.Type(), x.Field); fv != nil && fv.Name() == "Required" {
					if pt, ok := x.X.Type().Underlying().(*types.Pointer); ok && isNamed(pt.Elem(), modPath, "AttributeSchema") {
						for _, r := range *x.Referrers() {
							if u, ok := r.(*ssa.UnOp); ok && u.Op == token.MUL {
								out = append(out, u)
							}
						}
					}
				}
			}
		}
	}
	return out
}

func c03Required(c *Ctx, fn *ssa.Function) {
	name := FuncName(fn)
	// the function itself, or a helper of its package it calls with the schema / an attribute schema
	cands := []*ssa.Function{fn}
	for _, b := range fn.Blocks {
		for _, ins := range b.Instrs {
			if call, ok := ins.(*ssa.Call); ok {
				if cal := staticCallee(&call.Call); cal != nil && inModule(cal) && fnPkg(cal) == fnPkg(fn) && len(cal.Blocks) > 0 {
					cands = append(cands, cal)
				}
			}
		}
	}
	n := 0
	for _, f := range cands {
		for _, ld := range requiredLoads(f) {
			// branches on the loaded flag (possibly negated)
			for _, iff := range branchesOn(ld) {
				n++
				c.Sites++
				reqEdge, neg := iff.iff.Block().Succs[0], iff.iff.Block().Succs[1]
				if iff.negated {
					reqEdge, neg = neg, reqEdge
				}
				key := fmt.Sprintf("%s:required-branch", name)
				// error diagnostic reachable only through the Required edge
				onReq, onNeg := false, false
				for _, b := range f.Blocks {
					if !blockBuildsErrorDiag(b) {
						continue
					}
					if edgeDominates(iff.iff.Block(), reqEdge, b) {
						onReq = true
					}
					if edgeDominates(iff.iff.Block(), neg, b) {
						onNeg = true
					}
				}
				switch {
				case onNeg:
					c.Fail("required.reported", key, iff.iff.Pos(), "an error diagnostic is built on the edge where the attribute is NOT required: the polarity of the Required test is inverted, so optional attributes are demanded and required ones are not")
				case !onReq:
					c.Fail("required.reported", key, iff.iff.Pos(), "no error diagnostic is built on the Required edge: a missing required attribute is a schema violation in the other syntax only")
				default:
					c.OK("required.reported", key, iff.iff.Pos(), "Required edge builds the error diagnostic")
				}
			}
		}
	}
	if n == 0 {
		c.Fail("required.reported", name+":required-branch", fn.Pos(), "the function never branches on AttributeSchema.Required: a missing required attribute is not a schema violation in this syntax")
	}
}

type flagBranch struct {
	iff     *ssa.If
	negated bool
}

// branchesOn: the If instructions whose condition is v or !v.
func branchesOn(v ssa.Value) []flagBranch {
	var out []flagBranch
	var walk func(x ssa.Value, neg bool, d int)
	walk = func(x ssa.Value, neg bool, d int) {
		if d > 3 || x.Referrers() == nil {
			return
		}
		for _, r := range *x.Referrers() {
			switch y := r.(type) {
			case *ssa.If:
				out = append(out, flagBranch{y, neg})
			case *ssa.UnOp:
				if y.Op == token.NOT {
					walk(y, !neg, d+1)
				}
			case *ssa.BinOp:
				// v == false / v != true …
				if k, ok := otherOperand(y, x).(*ssa.Const); ok && k.Value != nil && k.Value.Kind() == constant.Bool {
					kv := constant.BoolVal(k.Value)
					switch y.Op {
					case token.EQL:
						walk(y, neg != !kv, d+1)
					case token.NEQ:
						walk(y, neg != kv, d+1)
					}
				}
			}
		}
	}
	walk(v, false, 0)
	return out
}

func otherOperand(b *ssa.BinOp, x ssa.Value) ssa.Value {
	if b.X == x {
		return b.Y
	}
	return b.X
}

// edgeDominates: every path to b passes through the edge from→succ.
func edgeDominates(from, succ, b *ssa.BasicBlock) bool {
	if from.Succs[0] == from.Succs[1] {
		return false
	}
	if len(succ.Preds) == 1 {
		return succ.Dominates(b)
	}
	// succ has other predecessors: the edge dominates b only if b is unreachable without it
	return !reachableAvoidingEdge(from.Parent(), from, succ, b)
}

func reachableAvoidingEdge(fn *ssa.Function, from, succ, target *ssa.BasicBlock) bool {
	seen := map[*ssa.BasicBlock]bool{}
	var stack []*ssa.BasicBlock
	stack = append(stack, fn.Blocks[0])
	for len(stack) > 0 {
		b := stack[len(stack)-1]
		stack = stack[:len(stack)-1]
		if seen[b] {
			continue
		}
		seen[b] = true
		if b == target {
			return true
		}
		for _, s := range b.Succs {
			if b == from && s == succ {
				continue
			}
			stack = append(stack, s)
		}
	}
	return false
}

func isHCLAttributesMap(t types.Type) bool {
	m, ok := t.Underlying().(*types.Map)
	if !ok {
		return false
	}
	pt, ok := m.Elem().(*types.Pointer)
	return ok && isNamed(pt.Elem(), modPath, "Attribute")
}

func c03DupReported(c *Ctx, fns ...*ssa.Function) {
	n := 0
	for _, fn := range fns {
		for _, b := range fn.Blocks {
			for _, ins := range b.Instrs {
				mu, ok := ins.(*ssa.MapUpdate)
				if !ok || !isHCLAttributesMap(mu.Map.Type()) {
					continue
				}
				n++
				c.Sites++
				key := FuncName(fn) + ":insert[Attributes]"
				var guard *ssa.If
				for _, ce := range ctlEdges(b) {
					if ce.onTrue {
						continue
					}
					ex, ok := ce.iff.Cond.(*ssa.Extract)
					if !ok || ex.Index != 1 {
						continue
					}
					l, ok := ex.Tuple.(*ssa.Lookup)
					if !ok || !l.CommaOk || !sameMapValue(l.X, mu.Map) || !(l.Index == mu.Key || sameCell(l.Index, mu.Key) || sameStringValue(l.Index, mu.Key) || selfKeyedEntry(mu.Key, l.Index)) {
						continue
					}
					guard = ce.iff
				}
				if guard == nil {
					c.Fail("dup.reported", key, mu.Pos(), "an attribute is stored into the result map without first testing that the name is not yet present: of a property name used twice the second definition silently replaces the first, where the native syntax reports \"Attribute redefined\"")
					continue
				}
				found := guard.Block().Succs[0]
				hasErr, stores := false, false
				for _, fb := range fn.Blocks {
					if !edgeDominates(guard.Block(), found, fb) {
						continue
					}
					if blockBuildsErrorDiag(fb) {
						hasErr = true
					}
					for _, in2 := range fb.Instrs {
						if m2, ok := in2.(*ssa.MapUpdate); ok && sameMapValue(m2.Map, mu.Map) {
							stores = true
						}
					}
				}
				c.Check(hasErr && !stores, "dup.reported", key, mu.Pos(), "not-present edge of a lookup; present edge reports an error",
					"the present edge of the duplicate test "+map[bool]string{true: "overwrites the earlier definition", false: "does not build an error diagnostic"}[stores])
			}
		}
	}
	c.Floor("dup.reported insertions", n, 2, "json.body.PartialContent and JustAttributes")
}

// sameMapValue: a and b denote the same map (same SSA value, or loads of the same field of the same object).
func sameMapValue(a, b ssa.Value) bool {
	if a == b || sameCell(a, b) {
		return true
	}
	ua, ok1 := a.(*ssa.UnOp)
	ub, ok2 := b.(*ssa.UnOp)
	if ok1 && ok2 && ua.Op == token.MUL && ub.Op == token.MUL {
		return sameAddr(ua.X, ub.X)
	}
	return false
}

// sameStringValue: both are the same field of the same value (attrS.Name read twice) or loads of the same cell.
func sameStringValue(a, b ssa.Value) bool {
	fa, ok1 := a.(*ssa.Field)
	fb, ok2 := b.(*ssa.Field)
	if ok1 && ok2 {
		return fa.Field == fb.Field && fa.X == fb.X
	}
	return false
}

func c03LabelsNative(c *Ctx, fn *ssa.Function) {
	n := 0
	for _, b := range fn.Blocks {
		for _, ins := range b.Instrs {
			call, ok := ins.(*ssa.Call)
			if !ok {
				continue
			}
			bi, ok := call.Call.Value.(*ssa.Builtin)
			if !ok || bi.Name() != "append" || !isNamed(call.Type(), modPath, "Blocks") {
				continue
			}
			n++
			c.Sites++
			isLabels := func(x ssa.Value) bool {
				for fv := range fieldTrail(x) {
					if fv.Name() == "Labels" {
						return true
					}
				}
				return false
			}
			isNames := func(x ssa.Value) bool {
				for fv := range fieldTrail(x) {
					if fv.Name() == "LabelNames" {
						return true
					}
				}
				return false
			}
			ng, nl := lenRelation(ctlEdges(b), isLabels, isNames)
			why := ""
			switch {
			case !ng && !nl:
				why = "neither too few nor too many labels are excluded"
			case !nl:
				why = "too few labels are not excluded"
			case !ng:
				why = "too many labels are not excluded"
			}
			c.Check(ng && nl, "labels.exact", FuncName(fn)+":append[Blocks]", call.Pos(), "appended under len(block.Labels) == len(LabelNames)",
				"a block is handed out although "+why+": the JSON syntax cannot express such a block (it unpacks exactly one nesting level per label name), so the two syntaxes disagree and consumers index labels by the schema's count")
		}
	}
	c.Floor("labels.exact native appends", n, 1, "the append of block.AsHCLBlock()")
}

// lenRelation: what the comparisons len(A) ? len(B) among the edges establish.
func lenRelation(edges []ctlEdge, isA, isB func(ssa.Value) bool) (notGreater, notLess bool) {
	for _, ce := range edges {
		bo, ok := ce.iff.Cond.(*ssa.BinOp)
		if !ok {
			continue
		}
		isLenOf := func(v ssa.Value, want func(ssa.Value) bool) bool {
			x := lenOf(stripConv(v))
			return x != nil && want(x)
		}
		op := bo.Op
		switch {
		case isLenOf(bo.X, isA) && isLenOf(bo.Y, isB):
		case isLenOf(bo.Y, isA) && isLenOf(bo.X, isB):
			switch op {
			case token.LSS:
				op = token.GTR
			case token.GTR:
				op = token.LSS
			case token.LEQ:
				op = token.GEQ
			case token.GEQ:
				op = token.LEQ
			}
		default:
			continue
		}
		t := ce.onTrue
		switch op {
		case token.GTR:
			if !t {
				notGreater = true
			}
		case token.LSS:
			if !t {
				notLess = true
			}
		case token.LEQ:
			if t {
				notGreater = true
			}
		case token.GEQ:
			if t {
				notLess = true
			}
		case token.EQL:
			if t {
				notGreater, notLess = true, true
			}
		case token.NEQ:
			if !t {
				notGreater, notLess = true, true
			}
		}
	}
	return
}

func c03LabelsJSON(c *Ctx, fn *ssa.Function) {
	// parameters by type: labelsLeft []string (first []string), labelsUsed []string (second)
	var strSlices []*ssa.Parameter
	for _, p := range fn.Params {
		if sl, ok := p.Type().Underlying().(*types.Slice); ok {
			if bt, ok := sl.Elem().Underlying().(*types.Basic); ok && bt.Kind() == types.String {
				strSlices = append(strSlices, p)
			}
		}
	}
	if len(strSlices) != 2 {
		c.Undecided("labels.exact", FuncName(fn)+":params", fn.Pos(), "unpackBlock no longer has exactly two []string parameters (labels left, labels used)")
		return
	}
	left, used := strSlices[0], strSlices[1]
	key := FuncName(fn)
	// (a) every construction of an hcl.Block lies on the edge where len(left) > 0 is false
	noneLeft := func(b *ssa.BasicBlock) bool {
		for _, ce := range ctlEdges(b) {
			bo, ok := ce.iff.Cond.(*ssa.BinOp)
			if !ok {
				continue
			}
			x := lenOf(stripConv(bo.X))
			k, isK := constIntVal(bo.Y)
			if x != ssa.Value(left) || !isK {
				continue
			}
			switch {
			case bo.Op == token.GTR && k == 0 && !ce.onTrue,
				bo.Op == token.EQL && k == 0 && ce.onTrue,
				bo.Op == token.NEQ && k == 0 && !ce.onTrue,
				bo.Op == token.GEQ && k == 1 && !ce.onTrue,
				bo.Op == token.LSS && k == 1 && ce.onTrue:
				return true
			}
		}
		return false
	}
	isBlockAlloc := func(ins ssa.Instruction) *ssa.Alloc {
		al, ok := ins.(*ssa.Alloc)
		if ok && isNamed(al.Type().(*types.Pointer).Elem(), modPath, "Block") {
			return al
		}
		return nil
	}
	// makers: closures of unpackBlock and helpers of the package that return a freshly built block
	makers := map[*ssa.Function]bool{}
	var cands []*ssa.Function
	cands = append(cands, fn.AnonFuncs...)
	for _, b := range fn.Blocks {
		for _, ins := range b.Instrs {
			if call, ok := ins.(*ssa.Call); ok {
				if k := staticCallee(&call.Call); k != nil && k != fn && fnPkg(k) == fnPkg(fn) && len(k.Blocks) > 0 {
					cands = append(cands, k)
				}
			}
		}
	}
	for _, k := range cands {
		for _, xf := range c.P.expandedFuncs(k) {
			for _, b := range xf.Blocks {
				for _, ins := range b.Instrs {
					if isBlockAlloc(ins) != nil {
						makers[k] = true
					}
				}
			}
		}
	}
	nLit := 0
	checkLabels := func(al *ssa.Alloc, usedHere ssa.Value, args []ssa.Value, params []*ssa.Parameter) {
		labelsOK := false
		for _, st := range fieldStoresByName(al, "Labels") {
			for _, o := range originsOf(st.Val, nil) {
				if derivesFromCopyOf(o, used) {
					labelsOK = true
				}
				// a parameter of a maker (or a copy of it): judge the argument handed in by unpackBlock
				for i, q := range params {
					if i >= len(args) {
						continue
					}
					if o == ssa.Value(q) || derivesFromCopyOf(o, q) {
						for _, oa := range originsOf(args[i], nil) {
							if derivesFromCopyOf(oa, used) {
								labelsOK = true
							}
						}
					}
				}
			}
		}
		c.Check(labelsOK, "labels.exact", key+":block-literal.Labels", al.Pos(), "Labels is a copy of the used-label list",
			"the Labels of the constructed block are not a copy of the labels collected on the way down")
	}
	for _, b := range fn.Blocks {
		for _, ins := range b.Instrs {
			if al := isBlockAlloc(ins); al != nil {
				nLit++
				c.Sites++
				c.Check(noneLeft(b), "labels.exact", key+":block-literal", al.Pos(), "constructed only when no label name is left",
					"an hcl.Block is constructed on a path where label names may still be left: the block has fewer labels than the schema names")
				checkLabels(al, used, nil, nil)
				continue
			}
			if call, ok := ins.(*ssa.Call); ok {
				k := staticCallee(&call.Call)
				if k == nil || !makers[k] {
					continue
				}
				nLit++
				c.Sites++
				c.Check(noneLeft(b), "labels.exact", key+":block-literal", call.Pos(), "constructed only when no label name is left",
					"an hcl.Block is constructed on a path where label names may still be left: the block has fewer labels than the schema names")
				for _, xf := range c.P.expandedFuncs(k) {
					for _, kb := range xf.Blocks {
						for _, kin := range kb.Instrs {
							if al := isBlockAlloc(kin); al != nil {
								checkLabels(al, used, call.Call.Args, k.Params)
							}
						}
					}
				}
			}
		}
	}
	c.Floor("labels.exact json block literals", nLit, 1, "single and repeated block bodies (one call of a shared maker may stand for both)")
	// (b) recursive calls: labelsLeft[1:], used one longer
	nRec := 0
	for _, b := range fn.Blocks {
		for _, ins := range b.Instrs {
			call, ok := ins.(*ssa.Call)
			if !ok || staticCallee(&call.Call) != fn {
				continue
			}
			nRec++
			c.Sites++
			args := call.Call.Args
			var aLeft, aUsed ssa.Value
			for i, p := range fn.Params {
				if p == left {
					aLeft = args[i]
				}
				if p == used {
					aUsed = args[i]
				}
			}
			okLeft := false
			if sl, ok := aLeft.(*ssa.Slice); ok && sl.X == ssa.Value(left) && sl.High == nil && sl.Max == nil {
				if k, ok := constIntVal(sl.Low); ok && k == 1 {
					okLeft = true
				}
			}
			okUsed := false
			if ap, ok := lookThroughPhiSingle(aUsed).(*ssa.Call); ok {
				if bi, ok := ap.Call.Value.(*ssa.Builtin); ok && bi.Name() == "append" && ap.Call.Args[0] == ssa.Value(used) && madeLen(ap.Call.Args[1], 0) == 1 {
					okUsed = true
				}
			}
			c.Check(okLeft && okUsed, "labels.exact", key+":recursion", call.Pos(), "hands on labelsLeft[1:] and a used-label list one longer",
				"the recursive call does not consume exactly one label name per nesting level ("+map[bool]string{true: "used-label list", false: "labelsLeft"}[okLeft]+")")
		}
	}
	c.Floor("labels.exact json recursion", nRec, 1, "the recursive call of unpackBlock")
}

func lookThroughPhiSingle(v ssa.Value) ssa.Value {
	for i := 0; i < 4; i++ {
		ph, ok := v.(*ssa.Phi)
		if !ok || len(ph.Edges) != 1 {
			return v
		}
		v = ph.Edges[0]
	}
	return v
}

func fieldStoresByName(al *ssa.Alloc, name string) []*ssa.Store {
	var out []*ssa.Store
	for _, r := range *al.Referrers() {
		fa, ok := r.(*ssa.FieldAddr)
		if !ok {
			continue
		}
		fv := fieldVarOf(fa.X.Type(), fa.Field)
		if fv == nil || fv.Name() != name {
			continue
		}
		for _, r2 := range *fa.Referrers() {
			if st, ok := r2.(*ssa.Store); ok && st.Addr == ssa.Value(fa) {
				out = append(out, st)
			}
		}
	}
	return out
}

// derivesFromCopyOf: v is src itself, a slice made with len(src) into which src is copied, or the
// result of a module helper that returns such a copy of the argument it is handed src for.
func derivesFromCopyOf(v ssa.Value, src ssa.Value) bool {
	if v == src {
		return true
	}
	if ex, ok := v.(*ssa.Extract); ok {
		if call, ok := ex.Tuple.(*ssa.Call); ok {
			return helperCopies(call, ex.Index, src)
		}
	}
	if call, ok := v.(*ssa.Call); ok {
		if _, isB := call.Call.Value.(*ssa.Builtin); !isB {
			return helperCopies(call, 0, src)
		}
	}
	mk, ok := v.(*ssa.MakeSlice)
	if !ok {
		if ph, ok := v.(*ssa.Phi); ok {
			for _, e := range ph.Edges {
				if !derivesFromCopyOf(e, src) {
					return false
				}
			}
			return len(ph.Edges) > 0
		}
		return false
	}
	if lenOf(stripConv(mk.Len)) != src {
		return false
	}
	for _, b := range mk.Parent().Blocks {
		for _, ins := range b.Instrs {
			call, ok := ins.(*ssa.Call)
			if !ok {
				continue
			}
			if bi, ok := call.Call.Value.(*ssa.Builtin); ok && bi.Name() == "copy" && call.Call.Args[1] == src {
				for _, o := range originsOf(call.Call.Args[0], nil) {
					if o == ssa.Value(mk) {
						return true
					}
				}
			}
		}
	}
	return false
}

// helperCopies: result idx of the called module function is, on every return, a copy of the
// parameter for which the call passes src.
func helperCopies(call *ssa.Call, idx int, src ssa.Value) bool {
	k := staticCallee(&call.Call)
	if k == nil || !inModule(k) || len(k.Blocks) == 0 {
		return false
	}
	var par *ssa.Parameter
	for i, a := range call.Call.Args {
		if a == src && i < len(k.Params) {
			par = k.Params[i]
		}
	}
	if par == nil {
		return false
	}
	n := 0
	for _, b := range k.Blocks {
		r, ok := b.Instrs[len(b.Instrs)-1].(*ssa.Return)
		if !ok || idx >= len(r.Results) {
			continue
		}
		n++
		for _, o := range originsOf(r.Results[idx], nil) {
			if _, isCall := o.(*ssa.Call); isCall {
				return false
			}
			if !derivesFromCopyOf(o, par) {
				return false
			}
		}
	}
	return n > 0
}

func c03Comment(c *Ctx, co, ja *ssa.Function) {
	commentEdge := func(b *ssa.BasicBlock) bool {
		for _, ce := range ctlEdges(b) {
			bo, ok := ce.iff.Cond.(*ssa.BinOp)
			if !ok {
				continue
			}
			isSlash := func(v ssa.Value) bool {
				k, ok := v.(*ssa.Const)
				return ok && k.Value != nil && k.Value.Kind() == constant.String && constant.StringVal(k.Value) == "//"
			}
			if !isSlash(bo.X) && !isSlash(bo.Y) {
				continue
			}
			if (bo.Op == token.EQL && !ce.onTrue) || (bo.Op == token.NEQ && ce.onTrue) {
				return true
			}
		}
		return false
	}
	// Content: error diagnostics inside loops
	n := 0
	for _, b := range co.Blocks {
		if !blockBuildsErrorDiag(b) || !inLoop(b) {
			continue
		}
		n++
		c.Sites++
		c.Check(commentEdge(b), "comment.skipped", FuncName(co)+":leftover-report", b.Instrs[0].Pos(), "under name != \"//\"",
			"the leftover report for a property is not excluded for the name \"//\": a comment property is reported as an extraneous argument, a schema violation the native syntax (where it is a comment) does not have")
	}
	c.Floor("comment.skipped leftover reports", n, 1, "\"Extraneous JSON object property\"")
	m := 0
	for _, b := range ja.Blocks {
		for _, ins := range b.Instrs {
			mu, ok := ins.(*ssa.MapUpdate)
			if !ok || !isHCLAttributesMap(mu.Map.Type()) {
				continue
			}
			m++
			c.Sites++
			c.Check(commentEdge(b), "comment.skipped", FuncName(ja)+":insert[Attributes]", mu.Pos(), "under name != \"//\"",
				"a property is stored as an attribute without excluding the name \"//\": a comment property becomes an attribute")
		}
	}
	c.Floor("comment.skipped attribute stores", m, 1, "JustAttributes")
}

// inLoop: b lies on a cycle of its function's CFG.
func inLoop(b *ssa.BasicBlock) bool {
	seen := map[*ssa.BasicBlock]bool{}
	stack := append([]*ssa.BasicBlock{}, b.Succs...)
	for len(stack) > 0 {
		x := stack[len(stack)-1]
		stack = stack[:len(stack)-1]
		if x == b {
			return true
		}
		if seen[x] {
			continue
		}
		seen[x] = true
		stack = append(stack, x.Succs...)
	}
	return false
}

func c03Forms(c *Ctx, fns ...*ssa.Function) {
	for _, fn := range fns {
		have := map[string]bool{}
		for _, xf := range c.P.expandedFuncs(fn) {
			for _, b := range xf.Blocks {
				for _, ins := range b.Instrs {
					ta, ok := ins.(*ssa.TypeAssert)
					if !ok {
						continue
					}
					if pt, ok := ta.AssertedType.(*types.Pointer); ok {
						if nm := namedOf(pt.Elem()); nm != nil && nm.Obj().Pkg() != nil && nm.Obj().Pkg().Path() == jsonPath {
							// only tests of the node parameter itself
							if _, isParam := lookThrough(ta.X).(*ssa.Parameter); isParam {
								have[nm.Obj().Name()] = true
							}
						}
					}
				}
			}
		}
		c.Sites++
		c.Check(have["objectVal"] && have["arrayVal"], "forms", FuncName(fn)+":node-kinds", fn.Pos(), "tests the node against *objectVal and *arrayVal",
			"the node is no longer tested against both *objectVal and *arrayVal: one of the JSON forms of a body the specification allows (a single object, an array of objects) is not accepted")
	}
}

// selfKeyedEntry: key is the field F of an entry looked up under index idx in a local table every
// entry of which is stored under its own field F (attrSchemas[attrS.Name] = attrS): then key == idx.
func selfKeyedEntry(key, idx ssa.Value) bool {
	// key = x.F, x the looked-up entry
	var entry ssa.Value
	var field int
	switch k := key.(type) {
	case *ssa.Field:
		entry, field = k.X, k.Field
	case *ssa.UnOp:
		fa, ok := k.X.(*ssa.FieldAddr)
		if !ok || k.Op != token.MUL {
			return false
		}
		al, ok := fa.X.(*ssa.Alloc)
		if !ok {
			return false
		}
		sts := storesInto(al)
		if len(sts) != 1 || sts[0].Addr != ssa.Value(al) {
			return false
		}
		entry, field = sts[0].Val, fa.Field
	default:
		return false
	}
	ex, ok := entry.(*ssa.Extract)
	if !ok || ex.Index != 0 {
		return false
	}
	lk, ok := ex.Tuple.(*ssa.Lookup)
	if !ok || !(lk.Index == idx || sameCell(lk.Index, idx)) {
		return false
	}
	mm, ok := lk.X.(*ssa.MakeMap)
	if !ok {
		return false
	}
	n := 0
	for _, r := range *mm.Referrers() {
		switch u := r.(type) {
		case *ssa.MapUpdate:
			n++
			if !fieldOfSame(u.Key, u.Value, field) {
				return false
			}
		case *ssa.Lookup, *ssa.DebugRef:
		default:
			if _, isRange := r.(*ssa.Range); isRange {
				continue
			}
			return false // the table escapes
		}
	}
	return n > 0
}

// fieldOfSame: key is field `field` of the value val (both read from the same cell, or key = val.F).
func fieldOfSame(key, val ssa.Value, field int) bool {
	if f, ok := key.(*ssa.Field); ok {
		return f.Field == field && f.X == val
	}
	ku, ok := key.(*ssa.UnOp)
	if !ok || ku.Op != token.MUL {
		return false
	}
	fa, ok := ku.X.(*ssa.FieldAddr)
	if !ok || fa.Field != field {
		return false
	}
	vu, ok := val.(*ssa.UnOp)
	return ok && vu.Op == token.MUL && vu.X == fa.X
}
