package main

import (
	"fmt"
	"go/token"
	"os"
	"sort"
	"strings"

	"golang.org/x/tools/go/ssa"
)

func init() { register("C19", checkC19) }

func checkC19(c *Ctx) {
	c.Rule("R1 taint: no string computed from the content of an evaluated cty value (AsString/AsBigFloat/GoString/%v of a value, a map or object key, attribute names of an evaluated value's type, anything derived from these through formatting, across calls) is stored into hcl.Diagnostic.Summary or .Detail in hcl, hclsyntax, json, hcldec, ext/dynblock")
	fns := c.P.pkgFuncs(c.Scope("hcl", "hclsyntax", "json", "hcldec", "ext/dynblock")...)
	// construction code (scanner, parser) only sees source text
	var scope []*ssa.Function
	for _, f := range fns {
		scope = append(scope, f)
	}
	e := newTaintEngine(c.P, scope)
	if dbg := os.Getenv("HCLCHECK_DEBUG_TAINT"); dbg != "" {
		for _, f := range scope {
			if strings.Contains(FuncName(f), dbg) {
				fmt.Printf("== %s ret=%d\n", FuncName(f), e.ret[f])
				for _, p := range f.Params {
					fmt.Printf("   param %s taint=%d\n", p.Name(), e.get(p))
				}
				for _, b := range f.Blocks {
					for _, ins := range b.Instrs {
						if v, ok := ins.(ssa.Value); ok && e.get(v) != 0 {
							fmt.Printf("   %s = %s  taint=%d\n", v.Name(), ins.String(), e.get(v))
						}
					}
				}
			}
		}
	}
	sinks := e.Sinks()
	n := 0
	for _, s := range sinks {
		n++
		name := FuncName(s.fn)
		c.Fn(name)
		c.Sites++
		key := fmt.Sprintf("%s:diag[%s].%s", name, s.summary, s.field)
		if !s.tainted {
			c.OK("taint", key, s.pos, s.guard)
			continue
		}
		c.Fail("taint", key, s.pos, "the "+s.field+" of this diagnostic is computed from the content of an evaluated value; if that value is marked the message reveals it"+guardNote(s.guard), e.chain(s.val)...)
	}
	c.Floor("taint sinks", n, 300, "Summary and Detail stores of ≈ 250 diagnostics in the evaluation packages")

	c19TextWriter(c)
	c19IteratorMarks(c)
	c19ScopeMarks(c)
	c19UserfuncMarks(c)
	c.NotCovered("leaks through go-cty conversion error texts and through application-supplied function errors (trusted / out of scope by the property's last sentence)")
	c.NotCovered("boolean facts and lengths revealed by a message (\"value is null\", \"tuple with 3 elements\") are not string or number content")
	c.Trust("error values and err.Error() are clean: go-cty v1.16.3 conversion errors name types and target attribute names, never values (two marginal exceptions: the 'use lowercase \"true\"' hint and MismatchMessage source attribute names)")
}

// R2: the text diagnostic writer prints values only when they are unmarked, and
// only top-level facts of collections.
func c19TextWriter(c *Ctx) {
	c.Rule("R2 textwriter: (*diagnosticTextWriter).valueStr is reached only with provably unmarked values (false edge of IsMarked in WriteDiagnostic; static traversal keys) and does not descend into elements of a collection (no ElementIterator/Index/GetAttr/AsValueSlice/AsValueMap), whose marks it could not see")
	vs := c.P.LookupFunc("", "diagnosticTextWriter.valueStr")
	if vs == nil {
		c.CheckerFail("textwriter", "anchor (*diagnosticTextWriter).valueStr does not resolve")
		return
	}
	um, err := newUnmarkedEngine(c.P)
	if err != nil {
		c.CheckerFail("textwriter", err.Error())
		return
	}
	c.Fn(FuncName(vs))
	var valParam *ssa.Parameter
	for _, p := range vs.Params {
		if isCtyValue(p.Type()) {
			valParam = p
		}
	}
	if valParam == nil {
		c.CheckerFail("textwriter", "valueStr has no cty.Value parameter")
		return
	}
	ok, why := um.paramUnmarked(valParam)
	c.Check(ok, "textwriter", FuncName(vs)+":param[val]", vs.Pos(), why, "valueStr can be reached with a value that is not provably unmarked ("+why+"): the 'with x as …' summary would print marked content")
	for f, w := range um.usedFieldRules {
		c.Assumption("unmarked: named exception " + f + ": " + w)
	}
	// "unmarked" must mean "never marked": the unmarked copy of a marked value still has its content
	if node := c.P.CallGraph().Nodes[vs]; node != nil {
		for _, in := range node.In {
			if in.Site == nil {
				continue
			}
			args := in.Site.Common().Args
			for _, a := range args {
				if !isCtyValue(a.Type()) {
					continue
				}
				c.Sites++
				um := strippedCopy(a, map[ssa.Value]bool{}, 0)
				c.Check(um == nil, "textwriter", FuncName(in.Caller.Func)+":call[valueStr].arg", in.Site.Pos(), "not the unmarked copy of a marked value",
					"valueStr is given the result of Unmark(): the marks are gone but the content is that of the marked value, and it is printed in the 'with x as …' summary")
			}
		}
	}
	descends := false
	for _, b := range vs.Blocks {
		for _, ins := range b.Instrs {
			if call, ok := ins.(*ssa.Call); ok {
				ci := calleeOf(&call.Call)
				if ci.isCtyValueMethod("ElementIterator", "Index", "GetAttr", "AsValueSlice", "AsValueMap", "AsValueSet", "ForEachElement") {
					descends = true
					c.Fail("textwriter", FuncName(vs)+":call["+ci.name+"]", call.Pos(), "valueStr descends into the elements of a collection; elements may be marked individually")
				}
				if cal := call.Call.StaticCallee(); cal == vs {
					descends = true
					c.Fail("textwriter", FuncName(vs)+":call[valueStr]", call.Pos(), "valueStr recurses into nested values; elements may be marked individually")
				}
			}
		}
	}
	if !descends {
		c.OK("textwriter", FuncName(vs)+":no-descent", vs.Pos(), "prints only top-level facts of collections")
	}
}

func guardNote(why string) string {
	if why == "" {
		return ""
	}
	return " (" + why + ")"
}

// R3: what is bound in a dynamic block's iterator carries the for_each marks.
func c19IteratorMarks(c *Ctx) {
	c.Rule("R3 iter.marks: every cty value handed to (*iteration).MakeChild as the iterator key or value that is the result of Unmark()/UnmarkDeep() or an element of a collection whose marks were stripped has those marks re-applied (WithMarks of the stripped marks / WithSameMarks of the original): expandSpec.newBlock protects block labels only by an IsMarked() test of the evaluated label, so an unmarked element of a collection marked as a whole would become a block label, a decoded map key and part of 'Duplicate block' messages")
	mk := c.P.LookupFunc("ext/dynblock", "iteration.MakeChild")
	if mk == nil {
		c.CheckerFail("iter.marks", "anchor (*iteration).MakeChild does not resolve")
		return
	}
	n := 0
	for _, fn := range c.P.pkgFuncs("ext/dynblock") {
		for _, b := range fn.Blocks {
			for _, ins := range b.Instrs {
				call, ok := ins.(*ssa.Call)
				if !ok || call.Call.StaticCallee() != mk {
					continue
				}
				c.Fn(FuncName(fn))
				for ai, a := range call.Call.Args {
					if !isCtyValue(a.Type()) {
						continue
					}
					n++
					c.Sites++
					stripped, remarked := strippedElementOf(a)
					name := "key"
					if ai == len(call.Call.Args)-1 {
						name = "value"
					}
					c.Check(stripped == nil || remarked, "iter.marks", FuncName(fn)+":call[MakeChild]."+name, call.Pos(), "iterator "+name+" carries the marks of the collection it was taken from",
						"the iterator "+name+" is an element of a collection whose marks were stripped by Unmark() and are not re-applied: label expressions using the iterator pass the IsMarked() test and the content of the marked collection becomes a block label")
				}
			}
		}
	}
	c.Floor("iter.marks arguments", n, 2, "key and value of the known for_each iteration")
	// the label guard of newBlock asks a value that can still be marked
	nb := c.P.LookupFunc("ext/dynblock", "expandSpec.newBlock")
	if nb == nil {
		c.CheckerFail("iter.marks", "anchor (*expandSpec).newBlock does not resolve")
		return
	}
	c.Fn(FuncName(nb))
	var fromStripped func(v ssa.Value, d int) bool
	fromStripped = func(v ssa.Value, d int) bool {
		if v == nil || d > 10 {
			return false
		}
		if strippedCopy(v, map[ssa.Value]bool{}, 0) != nil {
			return true
		}
		switch x := v.(type) {
		case *ssa.Extract:
			if call, ok := x.Tuple.(*ssa.Call); ok && x.Index == 0 {
				ci := calleeOf(&call.Call)
				if ci.name == "Convert" && len(call.Call.Args) > 0 {
					return fromStripped(call.Call.Args[0], d+1)
				}
			}
		case *ssa.Phi:
			all := len(x.Edges) > 0
			for _, e := range x.Edges {
				if !fromStripped(e, d+1) {
					all = false
				}
			}
			return all
		case *ssa.UnOp:
			if al, ok := x.X.(*ssa.Alloc); ok && x.Op == token.MUL {
				sts := storesInto(al)
				all := len(sts) > 0
				for _, st := range sts {
					if !fromStripped(st.Val, d+1) {
						all = false
					}
				}
				return all
			}
		}
		return false
	}
	guards := 0
	for _, b := range nb.Blocks {
		for _, ins := range b.Instrs {
			call, ok := ins.(*ssa.Call)
			if !ok || !calleeOf(&call.Call).isCtyValueMethod("IsMarked", "ContainsMarked") || len(call.Call.Args) == 0 {
				continue
			}
			guards++
			c.Sites++
			c.Check(!fromStripped(call.Call.Args[0], 0), "iter.marks", FuncName(nb)+":label.guard", call.Pos(), "asked of the evaluated label, marks included",
				"the mark test that keeps marked content out of block labels is asked of a value made from the copy Unmark() returned: it is always unmarked, the test never fires, and the content of a marked value becomes a block label (and part of 'Duplicate block' messages)")
		}
	}
	c.Floor("iter.marks label guards", guards, 1, "the IsMarked test of newBlock")
}

// R4 scope.marks: an element of a collection whose marks were stripped is bound in an evaluation
// scope only with those marks re-applied. Diagnostics carry the scope they were produced in
// (Diagnostic.EvalContext), and the text writer prints the values of the variables an erroneous
// expression refers to unless they are marked.
func c19ScopeMarks(c *Ctx) {
	c.Rule("R4 scope.marks: every value stored into an EvalContext.Variables map in hcl, hclsyntax, hcldec, ext/dynblock that is the result of Unmark()/UnmarkDeep() or an element of a collection whose marks were stripped has those marks re-applied (WithMarks / WithSameMarks): diagnostics of sub-expressions carry that scope (Diagnostic.EvalContext) and the diagnostic text writer prints every unmarked variable the failing expression refers to")
	n := 0
	for _, fn := range c.P.pkgFuncs("hcl", "hclsyntax", "hcldec", "ext/dynblock") {
		// maps that are (or become) the Variables of an EvalContext
		isVars := func(m ssa.Value) bool {
			if u, ok := m.(*ssa.UnOp); ok && u.Op == token.MUL {
				if fa, ok := u.X.(*ssa.FieldAddr); ok {
					if fv := fieldVarOf(fa.X.Type(), fa.Field); fv != nil && fv.Name() == "Variables" {
						if nt := namedOf(fa.X.Type()); nt != nil && nt.Obj().Name() == "EvalContext" {
							return true
						}
					}
				}
			}
			if mm, ok := m.(*ssa.MakeMap); ok {
				for _, r := range *mm.Referrers() {
					if st, ok := r.(*ssa.Store); ok && st.Val == ssa.Value(mm) {
						if fa, ok := st.Addr.(*ssa.FieldAddr); ok {
							if fv := fieldVarOf(fa.X.Type(), fa.Field); fv != nil && fv.Name() == "Variables" {
								return true
							}
						}
					}
				}
			}
			return false
		}
		for _, b := range fn.Blocks {
			for _, ins := range b.Instrs {
				mu, ok := ins.(*ssa.MapUpdate)
				if !ok || !isCtyValue(mu.Value.Type()) || !isVars(mu.Map) {
					continue
				}
				// the value bound: the stored value itself, or — when a helper or closure does the
				// binding for its callers — what each caller hands it
				type bound struct {
					v     ssa.Value
					owner *ssa.Function
					pos   token.Pos
				}
				bounds := []bound{{mu.Value, fn, mu.Pos()}}
				if par, ok := mu.Value.(*ssa.Parameter); ok && staticCallersOnly(c.P, fn) {
					idx := -1
					for i, q := range fn.Params {
						if q == par {
							idx = i
						}
					}
					bounds = nil
					for _, in := range c.P.CallGraph().Nodes[fn].In {
						args := in.Site.Common().Args
						if idx >= 0 && idx < len(args) {
							bounds = append(bounds, bound{args[idx], in.Site.Parent(), in.Site.Pos()})
						}
					}
					sort.Slice(bounds, func(i, j int) bool { return bounds[i].pos < bounds[j].pos })
				}
				for _, bd := range bounds {
					n++
					c.Sites++
					owner := bd.owner
					for owner.Parent() != nil {
						owner = owner.Parent()
					}
					c.Fn(FuncName(owner))
					stripped, remarked := strippedElementOf(bd.v)
					if stripped == nil {
						// the stripped copy itself (not an element of it) bound as a variable
						if sc := strippedCopy(bd.v, map[ssa.Value]bool{}, 0); sc != nil {
							stripped, remarked = sc, false
						}
					}
					key := fmt.Sprintf("%s:bind[%s]<-%s", FuncName(owner), pathName(mu.Key), pathName(bd.v))
					c.Check(stripped == nil || remarked, "scope.marks", key, bd.pos, "not an element of a stripped collection, or re-marked",
						"an element of a collection whose marks were stripped by Unmark() is bound in a child scope without them: a diagnostic of a sub-expression evaluated in that scope carries the scope, and the text writer prints the variable's content (`with v as \"…\"`)")
				}
			}
		}
	}
	c.Floor("scope.marks bindings", n, 4, "for-expression iterator bindings and dynamic-block iterators")
}

// strippedElementOf: if v is (derived from) an element of the result of Unmark(), returns that
// Unmark call and whether marks are re-applied on the way (WithMarks / WithSameMarks / Mark).
func strippedElementOf(v ssa.Value) (unmark *ssa.Call, remarked bool) {
	seen := map[ssa.Value]bool{}
	var walk func(v ssa.Value, d int, descended bool) *ssa.Call
	walk = func(v ssa.Value, d int, descended bool) *ssa.Call {
		if v == nil || seen[v] || d > 16 {
			return nil
		}
		seen[v] = true
		switch x := v.(type) {
		case *ssa.Extract:
			if call, ok := x.Tuple.(*ssa.Call); ok {
				ci := calleeOf(&call.Call)
				if ci.isCtyValueMethod("Unmark", "UnmarkDeep", "UnmarkDeepWithPaths") && x.Index == 0 {
					if descended {
						return call
					}
					return nil
				}
				if ci.name == "Element" {
					return walk(x.Tuple, d+1, true)
				}
			}
			return walk(x.Tuple, d+1, descended)
		case *ssa.Call:
			ci := calleeOf(&x.Call)
			if ci.isCtyValueMethod("WithMarks", "WithSameMarks", "Mark", "MarkWithPaths") {
				remarked = true
				return walk(x.Call.Args[0], d+1, descended)
			}
			if ci.name == "Element" || ci.name == "ElementIterator" || ci.name == "Index" || ci.name == "GetAttr" {
				if x.Call.IsInvoke() {
					if r := walk(x.Call.Value, d+1, true); r != nil {
						return r
					}
				}
				for _, a := range x.Call.Args {
					if r := walk(a, d+1, true); r != nil {
						return r
					}
				}
				return nil
			}
			if ci.isCtyValueMethod() && len(x.Call.Args) > 0 {
				return walk(x.Call.Args[0], d+1, descended)
			}
		case *ssa.Phi:
			for _, e := range x.Edges {
				if r := walk(e, d+1, descended); r != nil {
					return r
				}
			}
		case *ssa.ChangeType:
			return walk(x.X, d+1, descended)
		}
		return nil
	}
	unmark = walk(v, 0, false)
	return unmark, remarked
}

// strippedCopy: v is (a phi / local / conversion of) result 0 of an Unmark* call.
func strippedCopy(v ssa.Value, seen map[ssa.Value]bool, d int) *ssa.Call {
	if v == nil || seen[v] || d > 12 {
		return nil
	}
	seen[v] = true
	switch x := v.(type) {
	case *ssa.Extract:
		if call, ok := x.Tuple.(*ssa.Call); ok && x.Index == 0 {
			if calleeOf(&call.Call).isCtyValueMethod("Unmark", "UnmarkDeep", "UnmarkDeepWithPaths") {
				return call
			}
		}
	case *ssa.ChangeType:
		return strippedCopy(x.X, seen, d+1)
	case *ssa.Phi:
		for _, e := range x.Edges {
			if r := strippedCopy(e, seen, d+1); r != nil {
				return r
			}
		}
	case *ssa.UnOp:
		if al, ok := x.X.(*ssa.Alloc); ok && x.Op == token.MUL {
			for _, st := range storesInto(al) {
				if st.Addr == ssa.Value(al) {
					if r := strippedCopy(st.Val, seen, d+1); r != nil {
						return r
					}
				}
			}
		}
	}
	return nil
}

// userfunc.marks: a function defined in configuration sees its arguments with their marks.
func c19UserfuncMarks(c *Ctx) {
	c.Rule("userfunc.marks: every function.Parameter that ext/userfunc builds for a function defined in configuration (fixed and variadic parameters) sets AllowMarked: the body is an HCL expression evaluated by this module, whose diagnostics become the text of the call's error (\"Call to function … failed: …\"); cty hands a parameter without AllowMarked the argument stripped of its marks, so those diagnostics would quote the content of a marked argument as if it were public")
	n := 0
	for _, fn := range c.P.pkgFuncs("ext/userfunc") {
		type lit struct {
			pos     token.Pos
			allowed bool
		}
		lits := map[ssa.Value]*lit{}
		for _, b := range fn.Blocks {
			for _, ins := range b.Instrs {
				st, ok := ins.(*ssa.Store)
				if !ok {
					continue
				}
				fa, ok := st.Addr.(*ssa.FieldAddr)
				if !ok || !isNamed(fa.X.Type(), ctyPath+"/function", "Parameter") {
					continue
				}
				fv := fieldVarOf(fa.X.Type(), fa.Field)
				if fv == nil {
					continue
				}
				l := lits[fa.X]
				if l == nil {
					l = &lit{pos: st.Pos()}
					lits[fa.X] = l
				}
				if fv.Name() == "AllowMarked" {
					if cn, ok := st.Val.(*ssa.Const); ok && cn.Value != nil && cn.Value.String() == "true" {
						l.allowed = true
					}
				}
			}
		}
		k := 0
		var keys []ssa.Value
		for v := range lits {
			keys = append(keys, v)
		}
		sort.Slice(keys, func(i, j int) bool { return lits[keys[i]].pos < lits[keys[j]].pos })
		for _, v := range keys {
			l := lits[v]
			n++
			k++
			c.Sites++
			c.Fn(FuncName(fn))
			key := fmt.Sprintf("%s:parameter#%d", FuncName(fn), k)
			c.Check(l.allowed, "userfunc.marks", key, l.pos, "AllowMarked",
				"this parameter of a configuration-defined function does not allow marked values: cty strips the marks before the body is evaluated, and an error diagnostic of the body (duplicate key, invalid index, …) then quotes the argument in the call's error message")
		}
	}
	c.Floor("userfunc.marks parameters", n, 1, "the fixed parameters and the variadic parameter of decodeUserFunctions")
}
