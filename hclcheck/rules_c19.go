package main

import (
	"fmt"
	"os"
	"strings"

	"golang.org/x/tools/go/ssa"
)

func init() { register("C19", checkC19) }

func checkC19(c *Ctx) {
	c.Rule("R1 taint: no string computed from the content of an evaluated cty value (AsString/AsBigFloat/GoString/%v of a value, a map or object key, attribute names of an evaluated value's type, anything derived from these through formatting, across calls) is stored into hcl.Diagnostic.Summary or .Detail in hcl, hclsyntax, json, hcldec, ext/dynblock")
	fns := c.P.pkgFuncs(c.Scope("hcl", "hclsyntax", "json", "hcldec", "ext/dynblock")...)
	// construction code (scanner, parser) only sees source text
	var scope []*ssa.Function
	for _, f := range fns {
		scope = append(scope, f)
	}
	e := newTaintEngine(c.P, scope)
	if dbg := os.Getenv("HCLCHECK_DEBUG_TAINT"); dbg != "" {
		for _, f := range scope {
			if strings.Contains(FuncName(f), dbg) {
				fmt.Printf("== %s ret=%d\n", FuncName(f), e.ret[f])
				for _, p := range f.Params {
					fmt.Printf("   param %s taint=%d\n", p.Name(), e.get(p))
				}
				for _, b := range f.Blocks {
					for _, ins := range b.Instrs {
						if v, ok := ins.(ssa.Value); ok && e.get(v) != 0 {
							fmt.Printf("   %s = %s  taint=%d\n", v.Name(), ins.String(), e.get(v))
						}
					}
				}
			}
		}
	}
	sinks := e.Sinks()
	n := 0
	for _, s := range sinks {
		n++
		name := FuncName(s.fn)
		c.Fn(name)
		c.Sites++
		key := fmt.Sprintf("%s:diag[%s].%s", name, s.summary, s.field)
		if !s.tainted {
			c.OK("taint", key, s.pos, s.guard)
			continue
		}
		c.Fail("taint", key, s.pos, "the "+s.field+" of this diagnostic is computed from the content of an evaluated value; if that value is marked the message reveals it"+guardNote(s.guard), e.chain(s.val)...)
	}
	c.Floor("taint sinks", n, 300, "Summary and Detail stores of ≈ 250 diagnostics in the evaluation packages")

	c19TextWriter(c)
	c.NotCovered("leaks through go-cty conversion error texts and through application-supplied function errors (trusted / out of scope by the property's last sentence)")
	c.NotCovered("boolean facts and lengths revealed by a message (\"value is null\", \"tuple with 3 elements\") are not string or number content")
	c.Trust("error values and err.Error() are clean: go-cty v1.16.3 conversion errors name types and target attribute names, never values (two marginal exceptions: the 'use lowercase \"true\"' hint and MismatchMessage source attribute names)")
}

// R2: the text diagnostic writer prints values only when they are unmarked, and
// only top-level facts of collections.
func c19TextWriter(c *Ctx) {
	c.Rule("R2 textwriter: (*diagnosticTextWriter).valueStr is reached only with provably unmarked values (false edge of IsMarked in WriteDiagnostic; static traversal keys) and does not descend into elements of a collection (no ElementIterator/Index/GetAttr/AsValueSlice/AsValueMap), whose marks it could not see")
	vs := c.P.LookupFunc("", "diagnosticTextWriter.valueStr")
	if vs == nil {
		c.CheckerFail("textwriter", "anchor (*diagnosticTextWriter).valueStr does not resolve")
		return
	}
	um, err := newUnmarkedEngine(c.P)
	if err != nil {
		c.CheckerFail("textwriter", err.Error())
		return
	}
	c.Fn(FuncName(vs))
	var valParam *ssa.Parameter
	for _, p := range vs.Params {
		if isCtyValue(p.Type()) {
			valParam = p
		}
	}
	if valParam == nil {
		c.CheckerFail("textwriter", "valueStr has no cty.Value parameter")
		return
	}
	ok, why := um.paramUnmarked(valParam)
	c.Check(ok, "textwriter", FuncName(vs)+":param[val]", vs.Pos(), why, "valueStr can be reached with a value that is not provably unmarked ("+why+"): the 'with x as …' summary would print marked content")
	for f, w := range um.usedFieldRules {
		c.Assumption("unmarked: named exception " + f + ": " + w)
	}
	descends := false
	for _, b := range vs.Blocks {
		for _, ins := range b.Instrs {
			if call, ok := ins.(*ssa.Call); ok {
				ci := calleeOf(&call.Call)
				if ci.isCtyValueMethod("ElementIterator", "Index", "GetAttr", "AsValueSlice", "AsValueMap", "AsValueSet", "ForEachElement") {
					descends = true
					c.Fail("textwriter", FuncName(vs)+":call["+ci.name+"]", call.Pos(), "valueStr descends into the elements of a collection; elements may be marked individually")
				}
				if cal := call.Call.StaticCallee(); cal == vs {
					descends = true
					c.Fail("textwriter", FuncName(vs)+":call[valueStr]", call.Pos(), "valueStr recurses into nested values; elements may be marked individually")
				}
			}
		}
	}
	if !descends {
		c.OK("textwriter", FuncName(vs)+":no-descent", vs.Pos(), "prints only top-level facts of collections")
	}
}

func guardNote(why string) string {
	if why == "" {
		return ""
	}
	return " (" + why + ")"
}
