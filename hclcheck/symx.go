package main

import (
	"fmt"
	"go/constant"
	"go/token"
	"go/types"
	"sort"
	"strings"

	"golang.org/x/tools/go/ssa"
)

// E-symx: a small mixed concrete/symbolic interpreter of go/ssa, used to decide position
// bookkeeping (C14) on the SSA form rather than on syntax. Integers are linear forms over named
// symbols, byte slices are (base, lo, hi) windows, structs are field maps, local memory is a
// store keyed by root and field path; control flow must be decidable from concrete values (the
// grapheme-cluster model), anything else stops the run with an explanation.

type sxLin struct {
	c     int64
	terms map[string]int64
}

func sxConst(n int64) sxLin { return sxLin{c: n} }
func sxSym(name string) sxLin {
	return sxLin{terms: map[string]int64{name: 1}}
}

func (a sxLin) add(b sxLin, sign int64) sxLin {
	out := sxLin{c: a.c + sign*b.c, terms: map[string]int64{}}
	for k, v := range a.terms {
		out.terms[k] += v
	}
	for k, v := range b.terms {
		out.terms[k] += sign * v
	}
	for k, v := range out.terms {
		if v == 0 {
			delete(out.terms, k)
		}
	}
	return out
}

func (a sxLin) isConst() bool { return len(a.terms) == 0 }

func (a sxLin) String() string {
	var ks []string
	for k := range a.terms {
		ks = append(ks, k)
	}
	sort.Strings(ks)
	var parts []string
	for _, k := range ks {
		switch v := a.terms[k]; v {
		case 1:
			parts = append(parts, "+"+k)
		case -1:
			parts = append(parts, "-"+k)
		default:
			parts = append(parts, fmt.Sprintf("%+d*%s", v, k))
		}
	}
	if a.c != 0 || len(parts) == 0 {
		parts = append(parts, fmt.Sprintf("%+d", a.c))
	}
	return strings.Join(parts, " ")
}

type sxVal interface{}

type (
	sxBool  struct{ v bool }
	sxBytes struct {
		base string
		lo   sxLin
		hi   string
	} // hi: "" = to the end, else a linear form's String()
	sxModel  struct{ b []byte } // a concrete byte sequence (the cluster)
	sxStruct struct{ f map[string]sxVal }
	sxPtr    struct{ root, path string }
	sxOpaque struct{ name string }
	sxTuple  struct{ e []sxVal }
)

func sxString(v sxVal) string {
	switch x := v.(type) {
	case sxLin:
		return x.String()
	case sxBool:
		return fmt.Sprint(x.v)
	case sxBytes:
		return x.base + "[" + x.lo.String() + ":" + x.hi + "]"
	case sxModel:
		return fmt.Sprintf("%q", x.b)
	case sxStruct:
		var ks []string
		for k := range x.f {
			ks = append(ks, k)
		}
		sort.Strings(ks)
		var p []string
		for _, k := range ks {
			p = append(p, k+":"+sxString(x.f[k]))
		}
		return "{" + strings.Join(p, " ") + "}"
	case sxPtr:
		return "&" + x.root + "." + x.path
	case sxOpaque:
		return "?" + x.name
	case nil:
		return "<nil>"
	}
	return fmt.Sprintf("%v", v)
}

type sxMachine struct {
	fn    *ssa.Function
	names map[*ssa.Parameter]string // canonical names of the parameters
	reg   map[ssa.Value]sxVal
	mem   map[string]sxVal // "root.path" -> scalar value
	err   string
	model []byte                           // current cluster model (nil outside the loop body)
	scan  func(arg0 sxVal) (sxVal, string) // hook for the cluster scanner call
	// appended: values appended to slices (slice-typed field path -> appended element)
	appended []sxVal
	steps    int
	depth    int
}

func (m *sxMachine) fail(format string, a ...interface{}) {
	if m.err == "" {
		m.err = fmt.Sprintf(format, a...)
	}
}

func rootName(v ssa.Value) string {
	switch x := v.(type) {
	case *ssa.Alloc:
		return x.Name()
	case *ssa.Parameter:
		return x.Name()
	}
	return ""
}

// memLoad reads root.path: a scalar cell, or a struct assembled from the cells below the path.
func (m *sxMachine) memLoad(root, path string, t types.Type) sxVal {
	key := root + "." + path
	if st, ok := t.Underlying().(*types.Struct); ok {
		out := sxStruct{f: map[string]sxVal{}}
		for i := 0; i < st.NumFields(); i++ {
			f := st.Field(i)
			p := f.Name()
			if path != "" {
				p = path + "." + f.Name()
			}
			out.f[f.Name()] = m.memLoad(root, p, f.Type())
		}
		return out
	}
	if v, ok := m.mem[key]; ok {
		return v
	}
	// never stored: the initial content. Memory reached through a parameter is symbolic.
	name := strings.TrimPrefix(key, ".")
	if _, isSlice := t.Underlying().(*types.Slice); isSlice {
		if bt, ok := t.Underlying().(*types.Slice).Elem().Underlying().(*types.Basic); ok && bt.Kind() == types.Uint8 {
			return sxBytes{base: name, lo: sxConst(0)}
		}
		return sxOpaque{name}
	}
	if bt, ok := t.Underlying().(*types.Basic); ok && bt.Info()&types.IsInteger != 0 {
		if m.isLocalRoot(root) {
			return sxConst(0) // zero-initialised local
		}
		return sxSym(name)
	}
	return sxOpaque{name}
}

func (m *sxMachine) isLocalRoot(root string) bool {
	for _, b := range m.fn.Blocks {
		for _, ins := range b.Instrs {
			if al, ok := ins.(*ssa.Alloc); ok && al.Name() == root {
				return true
			}
		}
	}
	return false
}

func (m *sxMachine) memStore(root, path string, v sxVal) {
	if st, ok := v.(sxStruct); ok {
		for k, fv := range st.f {
			p := k
			if path != "" {
				p = path + "." + k
			}
			m.memStore(root, p, fv)
		}
		return
	}
	m.mem[root+"."+path] = v
}

func (m *sxMachine) val(v ssa.Value) sxVal {
	if r, ok := m.reg[v]; ok {
		return r
	}
	switch x := v.(type) {
	case *ssa.Const:
		if x.Value == nil {
			return sxOpaque{"nil"}
		}
		switch x.Value.Kind() {
		case constant.Int:
			n, _ := constant.Int64Val(x.Value)
			return sxConst(n)
		case constant.Bool:
			return sxBool{constant.BoolVal(x.Value)}
		}
		return sxOpaque{x.Value.String()}
	case *ssa.Parameter:
		nm := x.Name()
		if cn, ok := m.names[x]; ok {
			nm = cn
		}
		if bt, ok := x.Type().Underlying().(*types.Basic); ok && bt.Info()&types.IsInteger != 0 {
			return sxSym(nm)
		}
		if _, ok := x.Type().Underlying().(*types.Pointer); ok {
			return sxPtr{nm, ""}
		}
		return sxOpaque{nm}
	case *ssa.Alloc:
		return sxPtr{x.Name(), ""}
	case *ssa.Global:
		return sxOpaque{x.Name()}
	}
	return sxOpaque{v.Name()}
}

// step executes one non-control instruction.
func (m *sxMachine) step(ins ssa.Instruction) {
	switch x := ins.(type) {
	case *ssa.Alloc:
		m.reg[x] = sxPtr{x.Name(), ""}
	case *ssa.FieldAddr:
		p, ok := m.val(x.X).(sxPtr)
		if !ok {
			m.fail("field address of a non-pointer at %s", x.Name())
			return
		}
		fv := fieldVarOf(x.X.Type(), x.Field)
		path := fv.Name()
		if p.path != "" {
			path = p.path + "." + fv.Name()
		}
		m.reg[x] = sxPtr{p.root, path}
	case *ssa.IndexAddr:
		// seq[const] on the cluster model, or &array[0] of a varargs array
		if md, ok := m.val(x.X).(sxModel); ok {
			if idx, ok := m.val(x.Index).(sxLin); ok && idx.isConst() && idx.c >= 0 && int(idx.c) < len(md.b) {
				m.reg[x] = sxPtr{"$model", fmt.Sprint(idx.c)}
				return
			}
			m.fail("index into the cluster outside its length")
			return
		}
		if p, ok := m.val(x.X).(sxPtr); ok {
			if idx, ok := m.val(x.Index).(sxLin); ok && idx.isConst() {
				m.reg[x] = sxPtr{p.root, strings.TrimPrefix(p.path+"."+fmt.Sprint(idx.c), ".")}
				return
			}
		}
		m.reg[x] = sxOpaque{x.Name()}
	case *ssa.UnOp:
		switch x.Op {
		case token.MUL:
			p, ok := m.val(x.X).(sxPtr)
			if !ok {
				m.reg[x] = sxOpaque{x.Name()}
				return
			}
			if p.root == "$model" {
				var i int
				fmt.Sscan(p.path, &i)
				m.reg[x] = sxConst(int64(m.model[i]))
				return
			}
			m.reg[x] = m.memLoad(p.root, p.path, x.Type())
		case token.NOT:
			if b, ok := m.val(x.X).(sxBool); ok {
				m.reg[x] = sxBool{!b.v}
			} else {
				m.reg[x] = sxOpaque{x.Name()}
			}
		case token.SUB:
			if l, ok := m.val(x.X).(sxLin); ok {
				m.reg[x] = sxConst(0).add(l, -1)
			}
		default:
			m.reg[x] = sxOpaque{x.Name()}
		}
	case *ssa.Store:
		p, ok := m.val(x.Addr).(sxPtr)
		if !ok {
			return
		}
		m.memStore(p.root, p.path, m.val(x.Val))
	case *ssa.BinOp:
		a, b := m.val(x.X), m.val(x.Y)
		la, okA := a.(sxLin)
		lb, okB := b.(sxLin)
		switch x.Op {
		case token.ADD:
			if okA && okB {
				m.reg[x] = la.add(lb, 1)
				return
			}
		case token.SUB:
			if okA && okB {
				m.reg[x] = la.add(lb, -1)
				return
			}
		case token.EQL, token.NEQ, token.LSS, token.LEQ, token.GTR, token.GEQ:
			if okA && okB {
				d := la.add(lb, -1)
				if d.isConst() {
					var r bool
					switch x.Op {
					case token.EQL:
						r = d.c == 0
					case token.NEQ:
						r = d.c != 0
					case token.LSS:
						r = d.c < 0
					case token.LEQ:
						r = d.c <= 0
					case token.GTR:
						r = d.c > 0
					case token.GEQ:
						r = d.c >= 0
					}
					m.reg[x] = sxBool{r}
					return
				}
			}
			if ba, ok := a.(sxBool); ok {
				if bb, ok := b.(sxBool); ok && (x.Op == token.EQL || x.Op == token.NEQ) {
					m.reg[x] = sxBool{(ba.v == bb.v) == (x.Op == token.EQL)}
					return
				}
			}
		}
		m.reg[x] = sxOpaque{x.Name()}
	case *ssa.Slice:
		base := m.val(x.X)
		if p, ok := base.(sxPtr); ok {
			// slice of a local array (varargs): keep the pointer
			m.reg[x] = p
			return
		}
		bs, ok := base.(sxBytes)
		if !ok {
			m.reg[x] = sxOpaque{x.Name()}
			return
		}
		out := sxBytes{base: bs.base, lo: bs.lo, hi: bs.hi}
		if x.Low != nil {
			l, ok := m.val(x.Low).(sxLin)
			if !ok {
				m.fail("non-linear slice bound")
				return
			}
			out.lo = bs.lo.add(l, 1)
		}
		if x.High != nil {
			h, ok := m.val(x.High).(sxLin)
			if !ok {
				m.fail("non-linear slice bound")
				return
			}
			out.hi = bs.lo.add(h, 1).String()
		}
		m.reg[x] = out
	case *ssa.Call:
		m.call(x)
	case *ssa.Extract:
		if t, ok := m.val(x.Tuple).(sxTuple); ok && x.Index < len(t.e) {
			m.reg[x] = t.e[x.Index]
		} else {
			m.reg[x] = sxOpaque{x.Name()}
		}
	case *ssa.Convert:
		m.reg[x] = m.val(x.X)
	case *ssa.ChangeType:
		m.reg[x] = m.val(x.X)
	case *ssa.MakeInterface, *ssa.DebugRef:
	case ssa.Value:
		m.reg[x] = sxOpaque{x.Name()}
	}
}

func (m *sxMachine) call(x *ssa.Call) {
	if bi, ok := x.Call.Value.(*ssa.Builtin); ok {
		switch bi.Name() {
		case "len":
			switch a := m.val(x.Call.Args[0]).(type) {
			case sxModel:
				m.reg[x] = sxConst(int64(len(a.b)))
				return
			case sxBytes:
				if a.hi != "" {
					m.reg[x] = sxOpaque{"len(" + sxString(a) + ")"}
					return
				}
				m.reg[x] = sxSym("len("+a.base+")").add(a.lo, -1)
				return
			}
		case "append":
			if p, ok := m.val(x.Call.Args[1]).(sxPtr); ok && len(x.Call.Args) == 2 {
				// append(xs, elem): the element is cell 0 of the varargs array
				et := x.Type().Underlying().(*types.Slice).Elem()
				m.appended = append(m.appended, m.memLoad(p.root, strings.TrimPrefix(p.path+".0", "."), et))
			}
		}
		m.reg[x] = sxOpaque{x.Name()}
		return
	}
	cal := x.Call.StaticCallee()
	if cal != nil && cal.Name() == "ScanGraphemeClusters" && m.scan != nil {
		if c, ok := m.val(x.Call.Args[1]).(sxBool); !ok || !c.v {
			m.fail("ScanGraphemeClusters is not called with atEOF = true")
			return
		}
		r, err := m.scan(m.val(x.Call.Args[0]))
		if err != "" {
			m.fail("%s", err)
			return
		}
		m.reg[x] = r
		return
	}
	// a helper of the module asked about the cluster (a predicate over the scanned bytes): it is
	// executed on the concrete model; anything it cannot decide makes its result opaque
	if cal != nil && inModule(cal) && len(cal.Blocks) > 0 && len(cal.Params) == len(x.Call.Args) && cal.Signature.Results().Len() == 1 && m.depth < 2 {
		concrete := len(x.Call.Args) > 0
		for _, a := range x.Call.Args {
			switch v := m.val(a).(type) {
			case sxModel, sxBool:
			case sxLin:
				if !v.isConst() {
					concrete = false
				}
			default:
				concrete = false
			}
		}
		if concrete {
			sub := &sxMachine{fn: cal, names: map[*ssa.Parameter]string{}, reg: map[ssa.Value]sxVal{}, mem: map[string]sxVal{}, model: m.model, depth: m.depth + 1}
			for i, p := range cal.Params {
				sub.reg[p] = m.val(x.Call.Args[i])
			}
			_, last := sub.run(cal.Blocks[0], nil, nil, nil)
			if sub.err == "" && last != nil {
				if ret, ok := last.Instrs[len(last.Instrs)-1].(*ssa.Return); ok && len(ret.Results) == 1 {
					m.reg[x] = sub.val(ret.Results[0])
					return
				}
			}
		}
	}
	m.reg[x] = sxOpaque{x.Name()}
}

// run executes from block b until stop(next) holds for the block about to be entered, a return
// is reached (nil), or a branch cannot be decided. forced maps a block to the successor index to
// take regardless of its condition (the loop header).
func (m *sxMachine) run(b *ssa.BasicBlock, prev *ssa.BasicBlock, stop func(from, to *ssa.BasicBlock) bool, forced map[*ssa.BasicBlock]int) (*ssa.BasicBlock, *ssa.BasicBlock) {
	for m.err == "" {
		m.steps++
		if m.steps > 2000 {
			m.fail("no end within 2000 blocks")
			return nil, nil
		}
		for _, ins := range b.Instrs {
			if phi, ok := ins.(*ssa.Phi); ok {
				if prev != nil {
					for k, p := range b.Preds {
						if p == prev {
							m.reg[phi] = m.val(phi.Edges[k])
						}
					}
				}
				continue
			}
			break
		}
		var next *ssa.BasicBlock
		for _, ins := range b.Instrs {
			switch x := ins.(type) {
			case *ssa.Phi:
			case *ssa.If:
				if k, ok := forced[b]; ok {
					next = b.Succs[k]
					break
				}
				c, ok := m.val(x.Cond).(sxBool)
				if !ok {
					m.fail("the branch at %s does not depend on the cluster alone (%s)", m.fn.Prog.Fset.Position(x.Cond.Pos()), sxString(m.val(x.Cond)))
					return nil, nil
				}
				if c.v {
					next = b.Succs[0]
				} else {
					next = b.Succs[1]
				}
			case *ssa.Jump:
				next = b.Succs[0]
			case *ssa.Return:
				return nil, b
			case *ssa.Panic:
				m.fail("panic reached")
				return nil, nil
			default:
				m.step(ins)
				if m.err != "" {
					return nil, nil
				}
			}
		}
		if next == nil {
			m.fail("block without successor")
			return nil, nil
		}
		if stop != nil && stop(b, next) {
			return next, b
		}
		prev, b = b, next
	}
	return nil, nil
}
