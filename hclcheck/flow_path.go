package main

import (
	"fmt"
	"go/ast"
	"go/constant"
	"go/token"
	"go/types"
	"os"
	"sort"
	"strings"

	"golang.org/x/tools/go/ssa"
)

// Path analysis for one label L (one operand source), forward from the source.
//
// State per program point:
//   K  (must)  values that definitely carry L's marks on every path to here
//   B  (may)   values that may hold content of L WITHOUT L's marks on some path
//   err        every path to here has appended an error diagnostic (wildcard)
// Joins: K ∩, B ∪; an error-path state is absorbed by the other side.
// Two phases avoid the spurious loss of K at the header of a loop that contains
// the source: phase 1 follows paths from the source up to the back edges of the
// enclosing loops (cut), phase 2 continues from the cut edges through the whole
// CFG (including re-executions of the source).

type pathState struct {
	K, B map[ssa.Value]struct{}
	err  bool
}

func newPathState() *pathState {
	return &pathState{K: map[ssa.Value]struct{}{}, B: map[ssa.Value]struct{}{}}
}

func (s *pathState) clone() *pathState {
	n := &pathState{K: make(map[ssa.Value]struct{}, len(s.K)), B: make(map[ssa.Value]struct{}, len(s.B)), err: s.err}
	for k := range s.K {
		n.K[k] = struct{}{}
	}
	for k := range s.B {
		n.B[k] = struct{}{}
	}
	return n
}

func (s *pathState) hasK(v ssa.Value) bool { _, ok := s.K[v]; return ok }
func (s *pathState) hasB(v ssa.Value) bool { _, ok := s.B[v]; return ok }
func (s *pathState) setK(v ssa.Value)      { s.K[v] = struct{}{}; delete(s.B, v) }
func (s *pathState) setB(v ssa.Value) {
	if !s.hasK(v) {
		s.B[v] = struct{}{}
	}
}
func (s *pathState) clear(v ssa.Value) { delete(s.K, v); delete(s.B, v) }

func joinStates(a, b *pathState) *pathState {
	switch {
	case a.err && !b.err:
		return b.clone()
	case b.err && !a.err:
		return a.clone()
	}
	n := newPathState()
	n.err = a.err && b.err
	for k := range a.K {
		if _, ok := b.K[k]; ok {
			n.K[k] = struct{}{}
		}
	}
	for k := range a.B {
		n.B[k] = struct{}{}
	}
	for k := range b.B {
		n.B[k] = struct{}{}
	}
	// a value marked on one path and bad on the other is bad on some path
	for k := range n.K {
		delete(n.B, k)
	}
	return n
}

func sameState(a, b *pathState) bool {
	if a.err != b.err || len(a.K) != len(b.K) || len(a.B) != len(b.B) {
		return false
	}
	for k := range a.K {
		if _, ok := b.K[k]; !ok {
			return false
		}
	}
	for k := range a.B {
		if _, ok := b.B[k]; !ok {
			return false
		}
	}
	return true
}

func reachFrom(fn *ssa.Function, start *ssa.BasicBlock) map[*ssa.BasicBlock]bool {
	seen := map[*ssa.BasicBlock]bool{}
	st := append([]*ssa.BasicBlock{}, start.Succs...)
	for len(st) > 0 {
		b := st[len(st)-1]
		st = st[:len(st)-1]
		if seen[b] {
			continue
		}
		seen[b] = true
		st = append(st, b.Succs...)
	}
	return seen
}

func noMarksType(v ssa.Value) bool {
	t := v.Type()
	return isDiagnosticsType(t) || isNamed(t, ctyPath, "Type")
}

// cleanResult: calls whose result reveals nothing of the operands' content.
func cleanCall(call *ssa.Call) bool {
	ci := calleeOf(&call.Call)
	switch {
	case ci.name == "builtin.len" || ci.name == "builtin.cap":
		return true
	case ci.isCtyValueMethod() && ctyTypeLevelValueMethods[ci.name]:
		return true
	case ci.isCtyTypeMethod():
		return true
	}
	return false
}

func (f *flowFn) pathTransfer(s *flowSrc, ins ssa.Instruction, S *pathState) {
	switch x := ins.(type) {
	case *ssa.Store:
		root := memRoot(x.Addr)
		roots := []ssa.Value{root}
		if u, ok := root.(*ssa.UnOp); ok && u.Op == token.MUL {
			roots = append(roots, memRoot(u.X))
		}
		_, whole := root.(*ssa.Alloc)
		whole = whole && x.Addr == root
		for _, r := range roots {
			switch {
			case S.hasK(x.Val):
				S.setK(r)
			case S.hasB(x.Val):
				S.setB(r)
			case whole && r == root:
				S.clear(r) // strong update of a whole local variable
			}
		}
		return
	case *ssa.MapUpdate:
		roots := []ssa.Value{x.Map}
		if u, ok := x.Map.(*ssa.UnOp); ok && u.Op == token.MUL {
			roots = append(roots, memRoot(u.X))
		}
		for _, r := range roots {
			if S.hasK(x.Key) || S.hasK(x.Value) {
				S.setK(r)
			} else if S.hasB(x.Key) || S.hasB(x.Value) {
				S.setB(r)
			}
		}
		return
	}
	v, ok := ins.(ssa.Value)
	if !ok {
		return
	}
	if _, isPhi := v.(*ssa.Phi); isPhi {
		return // handled on edges
	}
	if call, ok := v.(*ssa.Call); ok {
		if cal := staticCallee(&call.Call); cal != nil && alwaysRecordsError(cal) {
			S.err = true // a helper or closure that appends an error diagnostic on every path
		}
	}
	if isDiagnosticsType(v.Type()) {
		if call, ok := v.(*ssa.Call); ok {
			if b, ok := call.Call.Value.(*ssa.Builtin); ok && b.Name() == "append" && len(call.Call.Args) > 1 && sliceLitHasErrorDiag(call.Call.Args[1]) {
				S.err = true
			}
			if cal := call.Call.StaticCallee(); cal != nil && len(call.Call.Args) == 2 && isErrorDiagPtr(call.Call.Args[1]) {
				S.err = true
			}
		}
		if sl, ok := v.(*ssa.Slice); ok && sliceLitHasErrorDiag(sl) {
			S.err = true
		}
	}
	if idx, isSrc := f.src[v]; isSrc && idx == s.idx {
		S.setK(v)
		return
	}
	anyK, anyB := false, false
	look := func(o ssa.Value) {
		if o == nil {
			return
		}
		if S.hasK(o) {
			anyK = true
		}
		if S.hasB(o) {
			anyB = true
		}
	}
	switch x := v.(type) {
	case *ssa.UnOp:
		if x.Op == token.MUL {
			look(memRoot(x.X))
		}
		look(x.X)
	case *ssa.Extract:
		look(x.Tuple)
		if call, ok := x.Tuple.(*ssa.Call); ok {
			ci := calleeOf(&call.Call)
			if ci.isCtyValueMethod("Unmark", "UnmarkDeep", "UnmarkDeepWithPaths") {
				if x.Index == 0 {
					// content without the top-level marks
					if anyK || anyB {
						S.clear(v)
						S.setB(v)
					} else {
						S.clear(v)
					}
					return
				}
				// the marks themselves
				if anyK {
					S.setK(v)
				} else {
					S.clear(v)
				}
				return
			}
		}
		if _, ok := x.Tuple.(*ssa.Lookup); ok && x.Index == 1 {
			S.clear(v)
			return
		}
		if _, ok := x.Tuple.(*ssa.TypeAssert); ok && x.Index == 1 {
			S.clear(v)
			return
		}
		if _, ok := x.Tuple.(*ssa.Next); ok && x.Index == 0 {
			S.clear(v) // "more elements?" of a Go range: a length, not content
			return
		}
	case *ssa.Call:
		if cleanCall(x) {
			S.clear(v)
			return
		}
		// a closure that peels the marks of its argument into a captured accumulator acts as
		// Unmark on the argument plus an append of the marks to that accumulator
		if mc, ok := x.Call.Value.(*ssa.MakeClosure); ok {
			if cf, ok := mc.Fn.(*ssa.Function); ok {
				if pi, fi, ok := peelSummary(cf); ok && pi < len(x.Call.Args) && fi < len(mc.Bindings) {
					look(x.Call.Args[pi])
					S.clear(v)
					if anyK || anyB {
						S.setB(v)
					}
					if anyK {
						S.setK(memRoot(mc.Bindings[fi]))
					}
					return
				}
			}
		}
		ci := calleeOf(&x.Call)
		for _, op := range x.Operands(nil) {
			if *op != nil {
				look(*op)
			}
		}
		if ci.isCtyValueMethod("Marks") {
			if anyK {
				S.setK(v)
			} else {
				S.clear(v)
			}
			return
		}
	case *ssa.BinOp:
		if isNilConst(x.X) || isNilConst(x.Y) {
			S.clear(v)
			return
		}
		look(x.X)
		look(x.Y)
	case *ssa.MakeSlice, *ssa.MakeMap, *ssa.MakeChan, *ssa.Alloc:
		// sizes are not content
		S.clear(v)
		return
	case *ssa.IndexAddr:
		look(x.X)
	case *ssa.Index:
		look(x.X)
	case *ssa.Slice:
		look(x.X)
	default:
		for _, op := range ins.Operands(nil) {
			if *op != nil {
				look(*op)
			}
		}
	}
	S.clear(v)
	if noMarksType(v) {
		return
	}
	if anyK && markCapable(v.Type()) {
		S.setK(v)
		return
	}
	if anyK || anyB {
		// Go data (or a value rebuilt from it) computed from the operand's
		// content: content without marks
		S.setB(v)
	}
}

// ---- flag partitions -----------------------------------------------------------------
//
// Boolean flag variables (`known := true … known = false`) are phis whose inputs
// are only constants or other flags. The dataflow is partitioned by the known
// values of these flags, and branches on a flag prune the infeasible edge, so
// "the result is the DynamicVal returned under !known" and "the object returned
// under known" are not confused.

type flagSet struct {
	flags []*ssa.Phi
	index map[ssa.Value]int
}

func findFlags(fn *ssa.Function) *flagSet {
	fs := &flagSet{index: map[ssa.Value]int{}}
	cand := map[*ssa.Phi]bool{}
	for _, b := range fn.Blocks {
		for _, ins := range b.Instrs {
			phi, ok := ins.(*ssa.Phi)
			if !ok {
				break
			}
			if bt, ok := phi.Type().Underlying().(*types.Basic); ok && bt.Kind() == types.Bool {
				cand[phi] = true
			}
		}
	}
	for changed := true; changed; {
		changed = false
		for phi := range cand {
			for _, e := range phi.Edges {
				if _, isConst := e.(*ssa.Const); isConst {
					continue
				}
				if p2, ok := e.(*ssa.Phi); ok && cand[p2] {
					continue
				}
				delete(cand, phi)
				changed = true
				break
			}
		}
	}
	for phi := range cand {
		fs.flags = append(fs.flags, phi)
	}
	sort.Slice(fs.flags, func(i, j int) bool {
		if fs.flags[i].Block().Index != fs.flags[j].Block().Index {
			return fs.flags[i].Block().Index < fs.flags[j].Block().Index
		}
		return fs.flags[i].Name() < fs.flags[j].Name()
	})
	if len(fs.flags) > 6 {
		fs.flags = fs.flags[:6]
	}
	for i, p := range fs.flags {
		fs.index[p] = i
	}
	return fs
}

func (fs *flagSet) initialKey() string { return strings.Repeat("?", len(fs.flags)) }

func flagChar(b bool) byte {
	if b {
		return 'T'
	}
	return 'F'
}

// edgeKey computes the partition key after following edge p→succ; ok=false if the
// edge is infeasible under key.
func (fs *flagSet) edgeKey(key string, p, succ *ssa.BasicBlock) (string, bool) {
	if len(fs.flags) == 0 {
		return key, true
	}
	k := []byte(key)
	if iff, ok := p.Instrs[len(p.Instrs)-1].(*ssa.If); ok && p.Succs[0] != p.Succs[1] {
		cond := iff.Cond
		neg := false
		if u, ok := cond.(*ssa.UnOp); ok && u.Op == token.NOT {
			neg = true
			cond = u.X
		}
		if j, ok := fs.index[cond]; ok {
			want := (p.Succs[0] == succ) != neg
			if k[j] != '?' && k[j] != flagChar(want) {
				return "", false
			}
			k[j] = flagChar(want)
		}
	}
	pi := -1
	for i, pp := range succ.Preds {
		if pp == p {
			pi = i
		}
	}
	if pi >= 0 {
		old := append([]byte{}, k...)
		for _, ins := range succ.Instrs {
			phi, ok := ins.(*ssa.Phi)
			if !ok {
				break
			}
			j, isFlag := fs.index[phi]
			if !isFlag {
				continue
			}
			switch e := phi.Edges[pi].(type) {
			case *ssa.Const:
				if e.Value != nil {
					k[j] = flagChar(constant.BoolVal(e.Value))
				} else {
					k[j] = 'F'
				}
			default:
				if j2, ok := fs.index[e]; ok {
					k[j] = old[j2]
				} else {
					k[j] = '?'
				}
			}
		}
	}
	return string(k), true
}

// ---- keyed dataflow -----------------------------------------------------------------

type bk struct {
	b   *ssa.BasicBlock
	key string
}

type retState struct {
	key string
	st  *pathState
}

type dfResult struct {
	rets     map[*ssa.Return][]retState
	blockOut map[bk]*pathState
	cut      map[[2]*ssa.BasicBlock]map[string]*pathState
}

func (f *flowFn) edgeState(s *flowSrc, p, succ *ssa.BasicBlock, st *pathState) *pathState {
	n := st.clone()
	if iff, ok := p.Instrs[len(p.Instrs)-1].(*ssa.If); ok && p.Succs[0] == succ && p.Succs[1] != succ {
		if call, ok := iff.Cond.(*ssa.Call); ok {
			if cal := call.Call.StaticCallee(); cal != nil && cal.Name() == "HasErrors" && len(call.Call.Args) > 0 && isDiagnosticsType(call.Call.Args[0].Type()) {
				n.err = true
			}
		}
	}
	pi := -1
	for i, pp := range succ.Preds {
		if pp == p {
			pi = i
		}
	}
	for _, ins := range succ.Instrs {
		phi, ok := ins.(*ssa.Phi)
		if !ok {
			break
		}
		if pi < 0 {
			continue
		}
		n.clear(phi)
		if noMarksType(phi) {
			continue
		}
		e := phi.Edges[pi]
		if st.hasK(e) {
			n.setK(phi)
		} else if st.hasB(e) {
			n.setB(phi)
		}
	}
	return n
}

// runDataflow propagates from the given start states (block entry states, or
// from instruction index startFrom within the block on its first visit). Edges in
// cut are not followed; the states arriving there are recorded.
func (f *flowFn) runDataflow(s *flowSrc, start map[bk]*pathState, startFrom map[*ssa.BasicBlock]int, cut map[[2]*ssa.BasicBlock]bool) *dfResult {
	res := &dfResult{rets: map[*ssa.Return][]retState{}, blockOut: map[bk]*pathState{}, cut: map[[2]*ssa.BasicBlock]map[string]*pathState{}}
	in := map[bk]*pathState{}
	retLocal := map[*ssa.Return]map[string]*pathState{}
	var work []bk
	inWork := map[bk]bool{}
	push := func(x bk) {
		if !inWork[x] {
			inWork[x] = true
			work = append(work, x)
		}
	}
	var starts []bk
	for x := range start {
		starts = append(starts, x)
	}
	sort.Slice(starts, func(i, j int) bool {
		if starts[i].b.Index != starts[j].b.Index {
			return starts[i].b.Index < starts[j].b.Index
		}
		return starts[i].key < starts[j].key
	})
	for _, x := range starts {
		in[x] = start[x].clone()
		push(x)
	}
	first := map[bk]bool{}
	steps := 0
	for len(work) > 0 {
		steps++
		if steps > 200000 {
			f.err = "path analysis did not converge"
			break
		}
		x := work[0]
		work = work[1:]
		inWork[x] = false
		st := in[x].clone()
		from := 0
		if idx, ok := startFrom[x.b]; ok && !first[x] {
			from = idx
		}
		first[x] = true
		for i := from; i < len(x.b.Instrs); i++ {
			if r, ok := x.b.Instrs[i].(*ssa.Return); ok {
				if retLocal[r] == nil {
					retLocal[r] = map[string]*pathState{}
				}
				retLocal[r][x.key] = st.clone()
			}
			f.pathTransfer(s, x.b.Instrs[i], st)
		}
		if old, ok := res.blockOut[x]; ok && sameState(old, st) {
			continue
		}
		res.blockOut[x] = st
		for _, su := range x.b.Succs {
			nk, feasible := f.flags.edgeKey(x.key, x.b, su)
			if !feasible {
				continue
			}
			es := f.edgeState(s, x.b, su, st)
			e := [2]*ssa.BasicBlock{x.b, su}
			if cut[e] {
				if res.cut[e] == nil {
					res.cut[e] = map[string]*pathState{}
				}
				if cur, ok := res.cut[e][nk]; ok {
					res.cut[e][nk] = joinStates(cur, es)
				} else {
					res.cut[e][nk] = es
				}
				continue
			}
			y := bk{su, nk}
			if cur, ok := in[y]; !ok {
				in[y] = es
				push(y)
			} else {
				n := joinStates(cur, es)
				if !sameState(n, cur) {
					in[y] = n
					push(y)
				}
			}
		}
	}
	for r, m := range retLocal {
		for k, st := range m {
			res.rets[r] = append(res.rets[r], retState{k, st})
		}
	}
	return res
}

// twoPhase runs the dataflow from the start states; back edges of the loops that
// contain block `anchor` are cut in phase 1 and resumed in phase 2.
func (f *flowFn) twoPhase(s *flowSrc, anchor *ssa.BasicBlock, start map[bk]*pathState, startFrom map[*ssa.BasicBlock]int) (map[*ssa.Return][]retState, map[bk]*pathState) {
	reach := reachFrom(f.fn, anchor)
	cut := map[[2]*ssa.BasicBlock]bool{}
	for _, p := range f.fn.Blocks {
		if !reach[p] && p != anchor {
			continue
		}
		for _, h := range p.Succs {
			if h.Dominates(p) && h.Dominates(anchor) {
				cut[[2]*ssa.BasicBlock{p, h}] = true
			}
		}
	}
	r1 := f.runDataflow(s, start, startFrom, cut)
	rets := r1.rets
	outs := r1.blockOut
	if len(r1.cut) > 0 {
		start2 := map[bk]*pathState{}
		for e, m := range r1.cut {
			for k, st := range m {
				y := bk{e[1], k}
				if cur, ok := start2[y]; ok {
					start2[y] = joinStates(cur, st)
				} else {
					start2[y] = st
				}
			}
		}
		r2 := f.runDataflow(s, start2, nil, nil)
		for r, l := range r2.rets {
			rets[r] = append(rets[r], l...)
		}
		for x, st := range r2.blockOut {
			if cur, ok := outs[x]; ok {
				outs[x] = joinStates(cur, st)
			} else {
				outs[x] = st
			}
		}
	}
	return rets, outs
}

func (f *flowFn) sourceAnalysis(s *flowSrc) (map[*ssa.Return][]retState, map[bk]*pathState, map[*ssa.BasicBlock]bool) {
	fn := f.fn
	if s.ins == nil {
		reach := map[*ssa.BasicBlock]bool{}
		for _, b := range fn.Blocks {
			reach[b] = true
		}
		st := newPathState()
		st.setK(s.v)
		r := f.runDataflow(s, map[bk]*pathState{{fn.Blocks[0], f.flags.initialKey()}: st}, nil, nil)
		return r.rets, r.blockOut, reach
	}
	reach := reachFrom(fn, s.block)
	reach[s.block] = true
	idx := 0
	for i, ins := range s.block.Instrs {
		if ins == s.ins {
			idx = i
		}
	}
	rets, outs := f.twoPhase(s, s.block, map[bk]*pathState{{s.block, f.flags.initialKey()}: newPathState()}, map[*ssa.BasicBlock]int{s.block: idx})
	return rets, outs, reach
}

func posOrEntry(f *flowFn, s *flowSrc) string {
	if s.ins != nil {
		return f.p.Position(s.ins.Pos())
	}
	return "entry"
}

func names(m map[ssa.Value]struct{}) string {
	var out []string
	for v := range m {
		out = append(out, v.Name())
	}
	sort.Strings(out)
	return "{" + strings.Join(out, " ") + "}"
}

// condDesc describes a branch condition for keys and messages.
func condDesc(v ssa.Value) string {
	switch x := v.(type) {
	case *ssa.UnOp:
		if x.Op == token.NOT {
			return "!" + condDesc(x.X)
		}
	case *ssa.Call:
		ci := calleeOf(&x.Call)
		if x.Call.IsInvoke() {
			return pathName(x.Call.Value) + "." + ci.name + "()"
		}
		if len(x.Call.Args) > 0 && ci.recvT != nil {
			return valueDesc(x.Call.Args[0]) + "." + ci.name + "()"
		}
		return ci.name + "()"
	case *ssa.BinOp:
		return valueDesc(x.X) + " " + x.Op.String() + " " + valueDesc(x.Y)
	case *ssa.Extract:
		return valueDesc(x)
	}
	return valueDesc(v)
}

func valueDesc(v ssa.Value) string {
	switch x := v.(type) {
	case *ssa.Const:
		return x.String()
	case *ssa.Extract:
		if call, ok := x.Tuple.(*ssa.Call); ok {
			ci := calleeOf(&call.Call)
			if ci.recvT != nil && len(call.Call.Args) > 0 && !call.Call.IsInvoke() {
				return valueDesc(call.Call.Args[0]) + "." + ci.name + "()#" + fmt.Sprint(x.Index)
			}
			return pathName(call) + "#" + fmt.Sprint(x.Index)
		}
		return pathName(x.Tuple) + "#" + fmt.Sprint(x.Index)
	case *ssa.Call:
		ci := calleeOf(&x.Call)
		if ci.recvT != nil && len(x.Call.Args) > 0 && !x.Call.IsInvoke() {
			return valueDesc(x.Call.Args[0]) + "." + ci.name + "()"
		}
		return pathName(x)
	case *ssa.Phi:
		if c := x.Comment; c != "" {
			return c
		}
	}
	return pathName(v)
}

// ---- driver ------------------------------------------------------------------------

func (f *flowFn) retDescs() map[*ssa.Return]string {
	out := map[*ssa.Return]string{}
	decl := f.p.FuncDecl(f.fn)
	var body ast.Node
	if decl != nil {
		body = decl.Body
	} else if f.fn.Syntax() != nil {
		body = f.fn.Syntax()
	}
	byPos := map[token.Pos]*ast.ReturnStmt{}
	if body != nil {
		ast.Inspect(body, func(n ast.Node) bool {
			if r, ok := n.(*ast.ReturnStmt); ok {
				byPos[r.Pos()] = r
			}
			return true
		})
	}
	for _, b := range f.fn.Blocks {
		if r, ok := b.Instrs[len(b.Instrs)-1].(*ssa.Return); ok {
			d := "?"
			if rs, ok := byPos[r.Pos()]; ok && len(rs.Results) > 0 {
				d = exprStr(rs.Results[0])
			} else if ok {
				d = "<named results>"
			}
			out[r] = d
		}
	}
	return out
}

func (f *flowFn) Check() *flowResult {
	res := &flowResult{fn: f.fn, retDesc: f.retDescs(), err: f.err}
	if f.err != "" {
		return res
	}
	f.flags = findFlags(f.fn)
	for _, s := range f.srcs {
		res.sources = append(res.sources, s.name)
	}
	var rets []*ssa.Return
	for _, b := range f.fn.Blocks {
		if r, ok := b.Instrs[len(b.Instrs)-1].(*ssa.Return); ok {
			rets = append(rets, r)
		}
	}
	sort.Slice(rets, func(i, j int) bool { return rets[i].Pos() < rets[j].Pos() })
	isErr := map[*ssa.Return]bool{}
	for _, r := range rets {
		res.returns++
		if isErrorReturn(r) {
			isErr[r] = true
			res.errReturns++
		} else {
			res.checked = append(res.checked, r)
		}
	}
	type anchor struct {
		b    *ssa.BasicBlock
		bits lbits
		cond ssa.Value
	}
	var anchors []anchor
	for _, b := range f.fn.Blocks {
		if iff, ok := b.Instrs[len(b.Instrs)-1].(*ssa.If); ok {
			if c := f.C[iff.Cond]; !c.zero() {
				anchors = append(anchors, anchor{b, c, iff.Cond})
			}
		}
	}
	debug := os.Getenv("HCLCHECK_DEBUG_FLOW") != "" && strings.Contains(FuncName(f.fn), os.Getenv("HCLCHECK_DEBUG_FLOW"))
	valueResults := func(r *ssa.Return) []ssa.Value {
		var out []ssa.Value
		for _, rv := range r.Results {
			if valueLike(rv.Type()) && !isDiagnosticsType(rv.Type()) {
				out = append(out, lookThrough(rv))
			}
		}
		return out
	}
	constantResult := func(r *ssa.Return) bool {
		for _, rv := range valueResults(r) {
			if !f.C[rv].zero() {
				return false
			}
		}
		return true
	}
	// contentUnder: the content labels of v when the flags have the values of key: a phi edge that
	// can only be taken against a flag's value does not contribute (a result selected by
	// `if allKnown { result = … }` is the constant it started as when the flag is false)
	var contentUnder func(v ssa.Value, key string, depth int) lbits
	edgeInfeasible := func(p, b *ssa.BasicBlock, key string) bool {
		stop := b.Idom()
		for cur := p; cur != nil && cur != stop; cur = cur.Idom() {
			idom := cur.Idom()
			if idom == nil {
				break
			}
			iff, ok := idom.Instrs[len(idom.Instrs)-1].(*ssa.If)
			if !ok || len(cur.Preds) != 1 || idom.Succs[0] == idom.Succs[1] {
				continue
			}
			cond := iff.Cond
			neg := false
			if u, ok := cond.(*ssa.UnOp); ok && u.Op == token.NOT {
				neg = true
				cond = u.X
			}
			j, ok := f.flags.index[cond]
			if !ok || j >= len(key) {
				continue
			}
			// the flag phi must be the same value at b (it dominates b and is not a loop phi of a loop inside)
			if !cond.(*ssa.Phi).Block().Dominates(b) {
				continue
			}
			want := (idom.Succs[0] == cur) != neg
			if key[j] != '?' && key[j] != flagChar(want) {
				return true
			}
		}
		return false
	}
	contentUnder = func(v ssa.Value, key string, depth int) lbits {
		if depth > 6 {
			return f.C[v]
		}
		switch x := v.(type) {
		case *ssa.Phi:
			var out lbits
			for i, e := range x.Edges {
				if edgeInfeasible(x.Block().Preds[i], x.Block(), key) {
					continue
				}
				out = out.or(contentUnder(e, key, depth+1))
			}
			return out
		case *ssa.Call:
			ci := calleeOf(&x.Call)
			if ci.isCtyValueMethod("WithMarks", "WithSameMarks", "Mark", "RefineNotNull") && len(x.Call.Args) > 0 {
				return contentUnder(x.Call.Args[0], key, depth+1)
			}
		}
		return f.C[v]
	}
	constantResultUnder := func(r *ssa.Return, key string) bool {
		for _, rv := range valueResults(r) {
			if !contentUnder(rv, key, 0).zero() {
				return false
			}
		}
		return true
	}
	for _, s := range f.srcs {
		srcRets, srcOuts, reach := f.sourceAnalysis(s)
		if f.err != "" {
			res.err = f.err
			return res
		}
		if debug {
			fmt.Printf("== source #%d %s (%s) at %s\n", s.idx, s.name, s.v.Name(), posOrEntry(f, s))
		}
		// Rq1: content without marks reaches a result
		for _, r := range rets {
			if isErr[r] {
				continue
			}
			for _, rs := range srcRets[r] {
				if debug {
					fmt.Printf("   return %s [%s] key=%q err=%v K=%s B=%s\n", f.p.Position(r.Pos()), res.retDesc[r], rs.key, rs.st.err, names(rs.st.K), names(rs.st.B))
				}
				if rs.st.err {
					continue
				}
				for _, rv := range valueResults(r) {
					if rs.st.hasB(rv) {
						res.viol = append(res.viol, flowViolation{r, s, "Rq1", "content of " + s.name + " reaches the result on some path without its marks (peeled by Unmark or read as Go data and not re-applied)", res.retDesc[r], ""})
					}
				}
			}
		}
		// Rq2: per anchor
		for _, a := range anchors {
			if !a.bits.has(s.idx) || !reach[a.b] {
				continue
			}
			// states at the end of the anchor block, per partition
			type sideResult struct {
				rets map[*ssa.Return][]retState
			}
			var keys []string
			for x := range srcOuts {
				if x.b == a.b {
					keys = append(keys, x.key)
				}
			}
			sort.Strings(keys)
			// split undetermined flags: each concrete flag valuation is analysed on
			// its own (a flag that is already false before the branch confines the
			// outcome to the returns taken under !flag)
			type startPoint struct {
				key string
				st  *pathState
			}
			var points []startPoint
			for _, key := range keys {
				st0 := srcOuts[bk{a.b, key}]
				if st0.err {
					continue
				}
				variants := []string{key}
				for j := 0; j < len(key); j++ {
					if key[j] != '?' {
						continue
					}
					var next []string
					for _, v := range variants {
						next = append(next, v[:j]+"T"+v[j+1:], v[:j]+"F"+v[j+1:])
					}
					variants = next
				}
				for _, v := range variants {
					points = append(points, startPoint{v, st0})
				}
			}
			for _, pt := range points {
				key, st0 := pt.key, pt.st
				var sides [2]map[*ssa.Return][]retState
				for i, su := range a.b.Succs {
					if i > 1 {
						break
					}
					nk, feasible := f.flags.edgeKey(key, a.b, su)
					if !feasible {
						sides[i] = map[*ssa.Return][]retState{}
						continue
					}
					es := f.edgeState(s, a.b, su, st0)
					// cut edges relative to the anchor block; if the successor is itself
					// a loop header dominating the anchor, start in phase 2 directly
					if su.Dominates(a.b) {
						r := f.runDataflow(s, map[bk]*pathState{{su, nk}: es}, nil, nil)
						sides[i] = r.rets
					} else {
						sides[i], _ = f.twoPhase(s, a.b, map[bk]*pathState{{su, nk}: es}, nil)
					}
				}
				okRets := func(m map[*ssa.Return][]retState) map[*ssa.Return]bool {
					out := map[*ssa.Return]bool{}
					for r, l := range m {
						if isErr[r] {
							continue
						}
						for _, rs := range l {
							if !rs.st.err {
								out[r] = true
							}
						}
					}
					return out
				}
				r0, r1 := okRets(sides[0]), okRets(sides[1])
				// a branch one side of which can only end in an error result does not
				// distinguish two error-free evaluations
				if len(r0) == 0 || len(r1) == 0 {
					continue
				}
				// outcome equivalence: both sides reach the same returns and each of
				// them returns a constant (content-free) value
				same := len(r0) == len(r1)
				for r := range r0 {
					if !r1[r] || !constantResult(r) {
						same = false
					}
				}
				if !same {
					// the same, told apart by flag valuation: both sides reach the same returns under
					// the same flag values, and under those values each result is content-free
					type rk struct {
						r   *ssa.Return
						key string
					}
					keyed := func(m map[*ssa.Return][]retState) map[rk]bool {
						out := map[rk]bool{}
						for r, l := range m {
							if isErr[r] {
								continue
							}
							for _, rs := range l {
								if !rs.st.err {
									out[rk{r, rs.key}] = true
								}
							}
						}
						return out
					}
					k0, k1 := keyed(sides[0]), keyed(sides[1])
					same = len(k0) == len(k1)
					for x := range k0 {
						if !k1[x] || !constantResultUnder(x.r, x.key) {
							same = false
						}
					}
				}
				if debug {
					fmt.Printf("   anchor block %d [%s] at %s key=%q: side0→%d returns, side1→%d returns, equivalent=%v\n", a.b.Index, condDesc(a.cond), f.p.Position(blockPos(a.b)), key, len(r0), len(r1), same)
				}
				if same {
					continue
				}
				for i := 0; i < 2; i++ {
					for r, l := range sides[i] {
						if isErr[r] {
							continue
						}
						for _, rs := range l {
							if rs.st.err {
								continue
							}
							for _, rv := range valueResults(r) {
								if !rs.st.hasK(rv) {
									res.viol = append(res.viol, flowViolation{r, s, "Rq2",
										fmt.Sprintf("the result is reached after branching on the content of %s (%s at %s) and does not carry its marks on every path from that branch", s.name, condDesc(a.cond), f.p.Position(blockPos(a.b))),
										res.retDesc[r], condDesc(a.cond)})
								}
							}
						}
					}
				}
			}
		}
	}
	return res
}

var recordsErrMemo = map[*ssa.Function]int{}

// alwaysRecordsError: fn is a module helper or closure every path through which appends an error
// diagnostic (to a captured or passed diagnostics value).
func alwaysRecordsError(fn *ssa.Function) bool {
	if fn == nil || len(fn.Blocks) == 0 || !inModule(fn) {
		return false
	}
	switch recordsErrMemo[fn] {
	case 1:
		return false
	case 2:
		return true
	case 3:
		return false
	}
	recordsErrMemo[fn] = 1
	isErrAppend := func(ins ssa.Instruction) bool {
		call, ok := ins.(*ssa.Call)
		if !ok {
			return false
		}
		if b, ok := call.Call.Value.(*ssa.Builtin); ok && b.Name() == "append" && len(call.Call.Args) > 1 && isDiagnosticsType(call.Type()) && sliceLitHasErrorDiag(call.Call.Args[1]) {
			return true
		}
		if cal := call.Call.StaticCallee(); cal != nil && isDiagnosticsType(call.Type()) && len(call.Call.Args) == 2 && isErrorDiagPtr(call.Call.Args[1]) {
			return true
		}
		return false
	}
	// report-once idiom: `if flag { report }; flag = false` — the edge on which the flag shows that
	// a problem has been dealt with before is excused when the function itself stores that value
	reportOnce := func(from, to *ssa.BasicBlock) bool {
		iff, ok := lastIf(from)
		if !ok || from.Succs[0] == from.Succs[1] {
			return false
		}
		cond, inv := stripBool(iff.Cond)
		ld, ok := cond.(*ssa.UnOp)
		if !ok || ld.Op != token.MUL {
			return false
		}
		val := (from.Succs[0] == to) != inv // the flag's value on this edge
		for _, b := range fn.Blocks {
			for _, ins := range b.Instrs {
				if st, ok := ins.(*ssa.Store); ok && (st.Addr == ld.X || sameAddr(st.Addr, ld.X)) {
					if cn, ok := st.Val.(*ssa.Const); ok && cn.Value != nil && (cn.Value.String() == "true") == val {
						return true
					}
				}
			}
		}
		return false
	}
	_, escapes := reachesReturnAvoiding(fn.Blocks[0], 0, isErrAppend, reportOnce)
	if escapes {
		recordsErrMemo[fn] = 3
		return false
	}
	recordsErrMemo[fn] = 2
	return true
}

// peelSummary: fn is a closure that strips the marks of one cty.Value parameter, puts them into a
// captured accumulator (appended to, or assigned to, a free variable) and returns the stripped
// value — a local spelling of `v, m := x.Unmark(); marks = append(marks, m)`. Returns the index
// of the parameter and of the free variable.
func peelSummary(fn *ssa.Function) (param int, freeVar int, ok bool) {
	if fn == nil || fn.Parent() == nil || len(fn.Blocks) == 0 || len(fn.FreeVars) == 0 {
		return 0, 0, false
	}
	for _, b := range fn.Blocks {
		for _, ins := range b.Instrs {
			call, isCall := ins.(*ssa.Call)
			if !isCall || !calleeOf(&call.Call).isCtyValueMethod("Unmark", "UnmarkDeep", "UnmarkDeepWithPaths") || len(call.Call.Args) == 0 {
				continue
			}
			pi := -1
			for i, p := range fn.Params {
				if call.Call.Args[0] == ssa.Value(p) {
					pi = i
				}
			}
			if pi < 0 {
				continue
			}
			var val, marks ssa.Value
			for _, r := range *call.Referrers() {
				if ex, isEx := r.(*ssa.Extract); isEx {
					if ex.Index == 0 {
						val = ex
					} else if ex.Index == 1 {
						marks = ex
					}
				}
			}
			if val == nil || marks == nil {
				continue
			}
			// every return yields the stripped value
			rets := 0
			for _, rb := range fn.Blocks {
				if r, isRet := rb.Instrs[len(rb.Instrs)-1].(*ssa.Return); isRet {
					if len(r.Results) != 1 || r.Results[0] != val {
						return 0, 0, false
					}
					rets++
				}
			}
			if rets == 0 {
				continue
			}
			// the marks go into a free variable on the way
			for fi, fv := range fn.FreeVars {
				for _, r := range *fv.Referrers() {
					st, isSt := r.(*ssa.Store)
					if !isSt || st.Addr != ssa.Value(fv) || !st.Block().Dominates(fn.Blocks[len(fn.Blocks)-1]) && st.Block() != call.Block() {
						continue
					}
					into := false
					switch v := st.Val.(type) {
					case *ssa.Extract:
						into = v == marks
					case *ssa.Call:
						if bi, isB := v.Call.Value.(*ssa.Builtin); isB && bi.Name() == "append" && len(v.Call.Args) == 2 {
							// append(*fv, marks): the varargs slice holds the marks
							if sl, isSl := v.Call.Args[1].(*ssa.Slice); isSl {
								if al, isAl := sl.X.(*ssa.Alloc); isAl {
									for _, r2 := range *al.Referrers() {
										if ia, isIA := r2.(*ssa.IndexAddr); isIA {
											for _, r3 := range *ia.Referrers() {
												if s3, isS := r3.(*ssa.Store); isS && s3.Val == marks {
													into = true
												}
											}
										}
									}
								}
							}
						}
					}
					if into && st.Block() == call.Block() {
						return pi, fi, true
					}
				}
			}
		}
	}
	return 0, 0, false
}
