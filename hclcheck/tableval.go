package main

import (
	"fmt"
	"go/ast"
	"go/constant"
	"go/token"
	"go/types"

	"golang.org/x/tools/go/packages"
)

// E-tableval: interprets the syntax tree of a side-effect-free predicate over
// enum-typed inputs (no compilation, no execution of repository code). Accepted:
// ==, !=, <, >, <=, >=, &&, ||, !, +, -, parentheses, integer/bool/enum
// constants, `x.Type` on a token parameter, tagless and tagged switch, if,
// return, and calls of other functions of the same package of the same
// restricted form. Anything else is reported as undecided.

type tvToken struct {
	typ constant.Value // the token's Type
}

type tvEnv struct {
	toks map[string]*tvToken // parameter name -> token
	kw   bool                // result of Keyword.TokenMatches on an identifier token
}

type tvInterp struct {
	p       *Program
	pkg     *packages.Package
	err     string
	depth   int
	identTy constant.Value // value of TokenIdent
}

type tvVal struct {
	c   constant.Value
	tok *tvToken
}

func (in *tvInterp) fail(n ast.Node, msg string) {
	if in.err == "" {
		in.err = fmt.Sprintf("%s: %s", in.p.Position(n.Pos()), msg)
	}
}

func (in *tvInterp) eval(e ast.Expr, env *tvEnv) tvVal {
	if in.err != "" {
		return tvVal{}
	}
	// compile-time constants (enum members, literals)
	if tv, ok := in.pkg.TypesInfo.Types[e]; ok && tv.Value != nil {
		return tvVal{c: tv.Value}
	}
	switch x := e.(type) {
	case *ast.ParenExpr:
		return in.eval(x.X, env)
	case *ast.Ident:
		if t, ok := env.toks[x.Name]; ok {
			return tvVal{tok: t}
		}
		in.fail(e, "identifier "+x.Name+" is not a token parameter or constant")
	case *ast.SelectorExpr:
		base := in.eval(x.X, env)
		if base.tok != nil && x.Sel.Name == "Type" {
			return tvVal{c: base.tok.typ}
		}
		in.fail(e, "unsupported selector "+exprStr(e))
	case *ast.UnaryExpr:
		v := in.eval(x.X, env)
		if v.c == nil {
			in.fail(e, "operand of unary operator is not a constant")
			return tvVal{}
		}
		switch x.Op {
		case token.NOT:
			return tvVal{c: constant.MakeBool(!constant.BoolVal(v.c))}
		case token.SUB:
			return tvVal{c: constant.UnaryOp(token.SUB, v.c, 0)}
		}
		in.fail(e, "unsupported unary operator")
	case *ast.BinaryExpr:
		l := in.eval(x.X, env)
		if in.err != "" {
			return tvVal{}
		}
		switch x.Op {
		case token.LAND:
			if l.c == nil {
				in.fail(e, "non-constant operand")
				return tvVal{}
			}
			if !constant.BoolVal(l.c) {
				return tvVal{c: constant.MakeBool(false)}
			}
			return in.eval(x.Y, env)
		case token.LOR:
			if l.c == nil {
				in.fail(e, "non-constant operand")
				return tvVal{}
			}
			if constant.BoolVal(l.c) {
				return tvVal{c: constant.MakeBool(true)}
			}
			return in.eval(x.Y, env)
		}
		r := in.eval(x.Y, env)
		if l.c == nil || r.c == nil {
			in.fail(e, "non-constant operand of "+x.Op.String())
			return tvVal{}
		}
		switch x.Op {
		case token.EQL, token.NEQ, token.LSS, token.GTR, token.LEQ, token.GEQ:
			return tvVal{c: constant.MakeBool(constant.Compare(l.c, x.Op, r.c))}
		case token.ADD, token.SUB:
			return tvVal{c: constant.BinaryOp(l.c, x.Op, r.c)}
		}
		in.fail(e, "unsupported binary operator "+x.Op.String())
	case *ast.CallExpr:
		// Keyword(...).TokenMatches(tok.asHCLSyntax())
		if sel, ok := x.Fun.(*ast.SelectorExpr); ok && sel.Sel.Name == "TokenMatches" && len(x.Args) == 1 {
			arg := x.Args[0]
			if c2, ok := arg.(*ast.CallExpr); ok {
				if s2, ok := c2.Fun.(*ast.SelectorExpr); ok && s2.Sel.Name == "asHCLSyntax" {
					arg = s2.X
				}
			}
			t := in.eval(arg, env)
			if t.tok == nil {
				in.fail(e, "TokenMatches on something that is not a token parameter")
				return tvVal{}
			}
			isIdent := in.identTy != nil && constant.Compare(t.tok.typ, token.EQL, in.identTy)
			return tvVal{c: constant.MakeBool(isIdent && env.kw)}
		}
		// package-local helper
		var obj *types.Func
		switch f := x.Fun.(type) {
		case *ast.Ident:
			obj, _ = in.pkg.TypesInfo.Uses[f].(*types.Func)
		}
		if obj == nil || obj.Pkg() != in.pkg.Types {
			in.fail(e, "call of "+exprStr(x.Fun)+" is not a package-local pure helper")
			return tvVal{}
		}
		fd := in.p.FuncDeclOf(obj)
		if fd == nil || fd.Body == nil {
			in.fail(e, "no body for "+obj.Name())
			return tvVal{}
		}
		if in.depth > 8 {
			in.fail(e, "helper recursion too deep")
			return tvVal{}
		}
		callee := &tvEnv{toks: map[string]*tvToken{}, kw: env.kw}
		i := 0
		for _, fl := range fd.Type.Params.List {
			for _, nm := range fl.Names {
				if i >= len(x.Args) {
					break
				}
				av := in.eval(x.Args[i], env)
				if av.tok == nil {
					in.fail(e, "helper argument is not a token")
					return tvVal{}
				}
				callee.toks[nm.Name] = av.tok
				i++
			}
		}
		in.depth++
		v, returned := in.exec(fd.Body.List, callee)
		in.depth--
		if !returned {
			in.fail(e, "helper "+obj.Name()+" does not return on this input")
		}
		return v
	default:
		in.fail(e, fmt.Sprintf("unsupported expression %T", e))
	}
	return tvVal{}
}

// exec runs statements; returned=true if a return was executed.
func (in *tvInterp) exec(stmts []ast.Stmt, env *tvEnv) (tvVal, bool) {
	for _, s := range stmts {
		if in.err != "" {
			return tvVal{}, true
		}
		switch x := s.(type) {
		case *ast.ReturnStmt:
			if len(x.Results) != 1 {
				in.fail(s, "return with other than one result")
				return tvVal{}, true
			}
			return in.eval(x.Results[0], env), true
		case *ast.IfStmt:
			if x.Init != nil {
				in.fail(s, "if with init statement")
				return tvVal{}, true
			}
			c := in.eval(x.Cond, env)
			if c.c == nil {
				in.fail(s, "non-constant if condition")
				return tvVal{}, true
			}
			if constant.BoolVal(c.c) {
				if v, r := in.exec(x.Body.List, env); r {
					return v, true
				}
			} else if x.Else != nil {
				switch el := x.Else.(type) {
				case *ast.BlockStmt:
					if v, r := in.exec(el.List, env); r {
						return v, true
					}
				case *ast.IfStmt:
					if v, r := in.exec([]ast.Stmt{el}, env); r {
						return v, true
					}
				}
			}
		case *ast.SwitchStmt:
			if x.Init != nil {
				in.fail(s, "switch with init statement")
				return tvVal{}, true
			}
			var tag *tvVal
			if x.Tag != nil {
				t := in.eval(x.Tag, env)
				if t.c == nil {
					in.fail(s, "non-constant switch tag")
					return tvVal{}, true
				}
				tag = &t
			}
			var chosen *ast.CaseClause
			var deflt *ast.CaseClause
		clauses:
			for _, cs := range x.Body.List {
				cc := cs.(*ast.CaseClause)
				if cc.List == nil {
					deflt = cc
					continue
				}
				for _, ce := range cc.List {
					v := in.eval(ce, env)
					if in.err != "" {
						return tvVal{}, true
					}
					if v.c == nil {
						in.fail(ce, "non-constant case expression")
						return tvVal{}, true
					}
					hit := false
					if tag != nil {
						hit = constant.Compare(tag.c, token.EQL, v.c)
					} else {
						hit = constant.BoolVal(v.c)
					}
					if hit {
						chosen = cc
						break clauses
					}
				}
			}
			if chosen == nil {
				chosen = deflt
			}
			if chosen != nil {
				for _, bs := range chosen.Body {
					if _, isFT := bs.(*ast.BranchStmt); isFT {
						in.fail(bs, "branch statement in case body")
						return tvVal{}, true
					}
				}
				if v, r := in.exec(chosen.Body, env); r {
					return v, true
				}
			}
		case *ast.BlockStmt:
			if v, r := in.exec(x.List, env); r {
				return v, true
			}
		case *ast.EmptyStmt:
		default:
			in.fail(s, fmt.Sprintf("unsupported statement %T", s))
			return tvVal{}, true
		}
	}
	return tvVal{}, false
}
